//! Executable contracts over the fragment API (C03, C06, C07).
use crate::harness::{CaseJson, Outcome};
use serde_json::{json, Value};
use textwrap::core::Fragment;
use textwrap::wrap_algorithms::wrap_first_fit;
#[cfg(feature = "full")]
use textwrap::wrap_algorithms::{wrap_optimal_fit, Penalties};

#[derive(Clone, Debug, PartialEq)]
pub struct Frag {
    pub w: f64,
    pub ws: f64,
    pub p: f64,
}
impl Fragment for Frag {
    fn width(&self) -> f64 {
        self.w
    }
    fn whitespace_width(&self) -> f64 {
        self.ws
    }
    fn penalty_width(&self) -> f64 {
        self.p
    }
}

#[derive(Clone, Debug)]
pub struct FragCase {
    pub frags: Vec<Frag>,
    pub widths: Vec<f64>,
    pub pen: [usize; 5],
}
impl CaseJson for FragCase {
    fn to_json(&self) -> Value {
        json!({"frags": self.frags.iter().map(|f| json!([f.w, f.ws, f.p])).collect::<Vec<_>>(), "line_widths": self.widths, "penalties": self.pen})
    }
}
impl FragCase {
    pub fn from_json(v: &Value) -> FragCase {
        FragCase {
            frags: v["frags"].as_array().unwrap().iter().map(|f| Frag { w: f[0].as_f64().unwrap(), ws: f[1].as_f64().unwrap(), p: f[2].as_f64().unwrap() }).collect(),
            widths: v["line_widths"].as_array().unwrap().iter().map(|x| x.as_f64().unwrap()).collect(),
            pen: {
                let a = v["penalties"].as_array().unwrap();
                [a[0].as_u64().unwrap() as usize, a[1].as_u64().unwrap() as usize, a[2].as_u64().unwrap() as usize, a[3].as_u64().unwrap() as usize, a[4].as_u64().unwrap() as usize]
            },
        }
    }
    #[cfg(feature = "full")]
    pub fn penalties(&self) -> Penalties {
        let mut p = Penalties::new();
        p.nline_penalty = self.pen[0];
        p.overflow_penalty = self.pen[1];
        p.short_last_line_fraction = self.pen[2];
        p.short_last_line_penalty = self.pen[3];
        p.hyphen_penalty = self.pen[4];
        p
    }
}
pub const DEFAULT_PEN: [usize; 5] = [1000, 2500, 4, 25, 25];

/// C06: ordered partition into non-empty contiguous runs (checked by slice identity)
fn partition_ok(frags: &[Frag], lines: &[&[Frag]]) -> Result<(), String> {
    if frags.is_empty() {
        if lines.len() != 1 || !lines[0].is_empty() {
            return Err(format!("empty input must give exactly one empty line, got {} line(s)", lines.len()));
        }
        return Ok(());
    }
    let mut pos = 0usize;
    for (k, l) in lines.iter().enumerate() {
        if l.is_empty() {
            return Err(format!("line {} is empty", k));
        }
        if l.as_ptr() != frags[pos..].as_ptr() {
            return Err(format!("line {} does not start at fragment {}", k, pos));
        }
        pos += l.len();
        if pos > frags.len() {
            return Err("lines overrun the input".into());
        }
    }
    if pos != frags.len() {
        return Err(format!("lines cover {} of {} fragments", pos, frags.len()));
    }
    Ok(())
}

pub fn c06_first_fit(c: &FragCase) -> Outcome {
    let lines = wrap_first_fit(&c.frags, &c.widths);
    partition_ok(&c.frags, &lines)?;
    Ok(lines.len() >= 2)
}

#[cfg(feature = "full")]
pub fn c06_optimal_fit(c: &FragCase) -> Outcome {
    match wrap_optimal_fit(&c.frags, &c.widths, &c.penalties()) {
        Ok(lines) => {
            partition_ok(&c.frags, &lines)?;
            Ok(lines.len() >= 2)
        }
        Err(_) => {
            // permitted only for non-usize-valued input (C04 handles the usize case)
            Ok(false)
        }
    }
}

/// C07: greedy-maximal, evaluated with the same IEEE operations in the same order
pub fn c07_greedy(c: &FragCase) -> Outcome {
    let lines = wrap_first_fit(&c.frags, &c.widths);
    partition_ok(&c.frags, &lines)?;
    let lw = |k: usize| -> f64 {
        if k < c.widths.len() { c.widths[k] } else { c.widths.last().copied().unwrap_or(0.0) }
    };
    let mut idx = 0usize;
    for (k, l) in lines.iter().enumerate() {
        let mut acc = 0.0f64;
        for (t, f) in l.iter().enumerate() {
            let over = acc + f.w + f.p > lw(k);
            if t > 0 && over {
                return Err(format!("fragment {} was put on line {} although it overflows it (acc {} + {} + {} > {})", idx + t, k, acc, f.w, f.p, lw(k)));
            }
            acc += f.w + f.ws;
        }
        idx += l.len();
        if k + 1 < lines.len() {
            let f = &lines[k + 1][0];
            if !(acc + f.w + f.p > lw(k)) {
                return Err(format!("line {} ends before fragment {} although it would have fitted (acc {} + {} + {} <= {})", k, idx, acc, f.w, f.p, lw(k)));
            }
        }
    }
    Ok(lines.len() >= 2)
}

// ------------------------------------------------------------------------------------------- C03
/// documented cost of an arrangement (breaks = start indices of the lines) — exact for the small integers used
pub fn arrangement_cost(frags: &[Frag], widths: &[f64], pen: &[usize; 5], breaks: &[usize]) -> f64 {
    let n = frags.len();
    let lw = |k: usize| -> f64 {
        if k < widths.len() { widths[k] } else { widths.last().copied().unwrap_or(0.0) }
    };
    let mut cost = 0.0f64;
    for (k, &i) in breaks.iter().enumerate() {
        let j = if k + 1 < breaks.len() { breaks[k + 1] } else { n };
        let target = lw(k).max(1.0);
        let mut w = 0.0;
        for t in i..j {
            w += frags[t].w + frags[t].ws;
        }
        w = w - frags[j - 1].ws + frags[j - 1].p;
        cost += pen[0] as f64;
        if w > target {
            cost += (w - target) * pen[1] as f64;
        } else if j < n {
            cost += (target - w) * (target - w);
        } else if i + 1 == j && w < target / pen[2] as f64 {
            cost += pen[3] as f64;
        }
        if frags[j - 1].p > 0.0 {
            cost += pen[4] as f64;
        }
    }
    cost
}

#[cfg(feature = "full")]
pub fn c03_optimal(c: &FragCase) -> Outcome {
    let n = c.frags.len();
    let lines = match wrap_optimal_fit(&c.frags, &c.widths, &c.penalties()) {
        Ok(l) => l,
        Err(e) => return Err(format!("overflow error for small integer input: {}", e)),
    };
    partition_ok(&c.frags, &lines)?;
    if n == 0 {
        return Ok(false);
    }
    let mut breaks = vec![];
    let mut pos = 0;
    for l in &lines {
        breaks.push(pos);
        pos += l.len();
    }
    let got = arrangement_cost(&c.frags, &c.widths, &c.pen, &breaks);
    // brute force over all 2^(n-1) arrangements
    let mut best = f64::INFINITY;
    let mut best_breaks = vec![];
    for mask in 0u32..(1u32 << (n - 1)) {
        let mut b = vec![0usize];
        for t in 1..n {
            if mask & (1 << (t - 1)) != 0 {
                b.push(t);
            }
        }
        let cst = arrangement_cost(&c.frags, &c.widths, &c.pen, &b);
        if cst < best {
            best = cst;
            best_breaks = b;
        }
    }
    if got != best {
        return Err(format!("optimal-fit returned breaks {:?} with cost {}, but breaks {:?} cost {}", breaks, got, best_breaks, best));
    }
    // never worse than first-fit
    let ff = wrap_first_fit(&c.frags, &c.widths);
    let mut fb = vec![];
    let mut p2 = 0;
    for l in &ff {
        fb.push(p2);
        p2 += l.len();
    }
    let fc = arrangement_cost(&c.frags, &c.widths, &c.pen, &fb);
    if got > fc {
        return Err(format!("optimal-fit cost {} exceeds first-fit cost {}", got, fc));
    }
    Ok(lines.len() >= 2 && breaks != fb)
}


/// A6 — the shape Verus unit U2 ASSUMES of smawk::online_column_minima: the matrix closure is called only with
/// i < j < size and i < m.len(), on a table m with m[0].0 == 0 and m[k].0 < k; the returned table has length `size`
/// and the same shape. Checked here on the real smawk crate with the documented cost model as matrix.
#[cfg(feature = "full")]
pub fn a6_smawk_shape(c: &FragCase) -> Outcome {
    let n = c.frags.len();
    let mut widths = vec![0.0f64];
    for f in &c.frags {
        let w = widths[widths.len() - 1] + f.w + f.ws;
        widths.push(w);
    }
    let size = widths.len();
    let bad = std::cell::RefCell::new(None::<String>);
    let calls = std::cell::Cell::new(0usize);
    // LineNumbers memoises hop counts of m[..=i] across calls: sound only if an entry, once shown to the matrix function at an
    // index <= i, never changes afterwards ("the finished prefix is final")
    let finals = std::cell::RefCell::new(vec![None::<(usize, f64)>; size]);
    let table_ok = |m: &[(usize, f64)]| -> bool { !m.is_empty() && m[0].0 == 0 && m.iter().enumerate().skip(1).all(|(k, e)| e.0 < k) };
    let lw = c.widths.last().copied().unwrap_or(0.0);
    let minima = smawk::online_column_minima(0.0, size, |m, i, j| {
        calls.set(calls.get() + 1);
        if !(i < j && j < size && i < m.len() && table_ok(m)) && bad.borrow().is_none() {
            *bad.borrow_mut() = Some(format!("matrix called with i={} j={} size={} m.len()={} table_ok={}", i, j, size, m.len(), table_ok(m)));
        }
        if !(i < j && j < size && i < m.len()) {
            return 0.0;
        }
        {
            let mut fin = finals.borrow_mut();
            for k in 0..=i {
                match fin[k] {
                    Some(v) if v.0 != m[k].0 && bad.borrow().is_none() => {
                        *bad.borrow_mut() = Some(format!("back pointer of entry {} changed from {} to {} after it had been shown as part of a finished prefix (call i={} j={})", k, v.0, m[k].0, i, j));
                    }
                    Some(_) => {}
                    None => fin[k] = Some(m[k]),
                }
            }
        }
        // a cost of the documented form (any total function would do for the shape)
        let line = widths[j] - widths[i] - c.frags[j - 1].ws + c.frags[j - 1].p;
        let target = lw.max(1.0);
        let mut cost = m[i].1 + c.pen[0] as f64;
        if line > target { cost += (line - target) * c.pen[1] as f64; } else if j < n { cost += (target - line) * (target - line); }
        cost
    });
    if let Some(b) = bad.into_inner() {
        return Err(b);
    }
    if minima.len() != size || !table_ok(&minima) {
        return Err(format!("returned table {:?} does not have the assumed shape (size {})", minima, size));
    }
    Ok(calls.get() >= 2)
}

/// The public dispatch `WrapAlgorithm::wrap(words, widths)` hands the words and EVERY listed width, in order, to the algorithm:
/// its result is the one `wrap_first_fit` / `wrap_optimal_fit` give for the same words and the same widths as f64.
/// c.text: space-separated ASCII words; c.aux: the width list, comma separated; c.n: 0 = first-fit, 1 = optimal-fit.
pub fn dispatch_same(c: &crate::common::StrCase) -> Outcome {
    use textwrap::core::Word;
    use textwrap::{WordSeparator, WrapAlgorithm};
    let words: Vec<Word<'_>> = WordSeparator::AsciiSpace.find_words(&c.text).collect();
    let ws: Vec<usize> = c.aux.split(',').filter(|x| !x.is_empty()).map(|x| x.parse().unwrap()).collect();
    let wf: Vec<f64> = ws.iter().map(|w| *w as f64).collect();
    let shape = |lines: &[&[Word<'_>]]| -> Vec<usize> { lines.iter().map(|l| l.len()).collect() };
    let (got, want) = if c.n == 0 {
        (shape(&WrapAlgorithm::FirstFit.wrap(&words, &ws)), shape(&wrap_first_fit(&words, &wf)))
    } else {
        #[cfg(feature = "full")]
        {
            let pen = Penalties::new();
            let direct = wrap_optimal_fit(&words, &wf, &pen).map_err(|e| format!("overflow for small integers: {}", e))?;
            (shape(&WrapAlgorithm::OptimalFit(pen).wrap(&words, &ws)), shape(&direct))
        }
        #[cfg(not(feature = "full"))]
        {
            return Ok(false);
        }
    };
    if got != want {
        return Err(format!("WrapAlgorithm::wrap({:?}, {:?}) gives line lengths {:?}, the algorithm called directly with the same widths gives {:?}", c.text, ws, got, want));
    }
    Ok(got.len() >= 3)
}
