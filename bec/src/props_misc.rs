//! Executable contracts: totality (C04), unfill/refill (C15, C16), dedent/indent (C18, C19), wrap_columns (C20).
use crate::common::*;
use crate::harness::Outcome;
use textwrap::core::{break_words, display_width, Word};
use textwrap::{dedent, fill, fill_inplace, indent, refill, unfill, wrap, wrap_columns, LineEnding, WordSeparator};

// ------------------------------------------------------------------------------------------- C04
/// every public entry point returns (panics are caught by the harness, hangs by its watchdog)
pub fn c04_total(c: &TextCase) -> Outcome {
    let o = &c.opts;
    let t = &c.text;
    let opt = o.options();
    let lines = wrap(t, &opt);
    let _ = fill(t, &opt);
    let mut s = t.clone();
    fill_inplace(&mut s, o.width);
    let (u, _) = unfill(t);
    let _ = u.len();
    let _ = refill(t, &opt);
    let _ = indent(t, o.initial);
    let _ = dedent(t);
    let _ = display_width(t);
    if o.width <= 100_000 {
        // exemption of C04: padding for a width near usize::MAX cannot fit in memory
        for cols in [1usize, 2, 3] {
            let _ = wrap_columns(t, cols, &opt, o.initial, o.subsequent, "|");
        }
    }
    let words: Vec<Word<'_>> = opt.word_separator.find_words(t).collect();
    let split: Vec<Word<'_>> = textwrap::word_splitters::split_words(words.clone(), &opt.word_splitter).collect();
    let broken = break_words(split.clone(), o.width);
    let _ = opt.wrap_algorithm.wrap(&broken, &[o.width, o.width / 2]);
    let _ = textwrap::wrap_algorithms::wrap_first_fit(&broken, &[o.width as f64]);
    #[cfg(feature = "full")]
    {
        for pen in [textwrap::wrap_algorithms::Penalties::new(), {
            let mut p = textwrap::wrap_algorithms::Penalties::new();
            p.nline_penalty = usize::MAX;
            p.overflow_penalty = usize::MAX;
            p.short_last_line_fraction = 0;
            p.short_last_line_penalty = usize::MAX;
            p.hyphen_penalty = usize::MAX;
            p
        }] {
            if textwrap::wrap_algorithms::wrap_optimal_fit(&broken, &[o.width as f64], &pen).is_err() && pen == textwrap::wrap_algorithms::Penalties::new() {
                return Err(format!("optimal-fit reports an overflow error for usize-valued input (width {})", o.width));
            }
        }
    }
    Ok(lines.len() >= 2 || t.contains(ESC) || !t.is_ascii())
}

// ------------------------------------------------------------------------------------------- C15
const PREFIX_CHARS: &[char] = &[' ', '-', '+', '*', '>', '#', '/'];

/// structural half, for arbitrary input
pub fn c15_structural(c: &StrCase) -> Outcome {
    let t = &c.text;
    let (text, options) = unfill(t);
    let lines: Vec<&str> = t.lines().collect();
    if !options.initial_indent.chars().all(|ch| PREFIX_CHARS.contains(&ch)) || !options.subsequent_indent.chars().all(|ch| PREFIX_CHARS.contains(&ch)) {
        return Err(format!("indents {:?}/{:?} contain non-prefix characters", options.initial_indent, options.subsequent_indent));
    }
    if let Some(l0) = lines.first() {
        if !l0.starts_with(options.initial_indent) {
            return Err(format!("initial indent {:?} is not a prefix of the first line {:?}", options.initial_indent, l0));
        }
    }
    for l in lines.iter().skip(1) {
        if !l.starts_with(options.subsequent_indent) {
            return Err(format!("subsequent indent {:?} is not a prefix of line {:?}", options.subsequent_indent, l));
        }
    }
    // no line break other than a final one
    let body = text.strip_suffix("\r\n").or_else(|| text.strip_suffix('\n')).unwrap_or(&text);
    if body.contains('\n') {
        return Err(format!("unfilled text {:?} contains an interior line break", text));
    }
    // line ending detection, for input without empty lines
    let has_empty = t.split('\n').enumerate().any(|(i, l)| {
        let l = l.strip_suffix('\r').unwrap_or(l);
        l.is_empty() && !(i + 1 == t.split('\n').count())
    }) || t.is_empty();
    if !has_empty {
        let n_lf = t.matches('\n').count();
        let n_crlf = t.matches("\r\n").count();
        let want = if n_lf >= 1 && n_crlf == n_lf { LineEnding::CRLF } else { LineEnding::LF };
        if options.line_ending != want {
            return Err(format!("{} line endings, {} of them CRLF, but reported {:?}", n_lf, n_crlf, options.line_ending));
        }
    }
    Ok(lines.len() >= 2)
}

#[derive(Clone, Debug)]
pub struct RefillCase {
    pub words: Vec<&'static str>,
    pub opts: Opts,
    pub width2: usize,
    pub crlf2: bool,
    pub trailing: bool,
}
impl crate::harness::CaseJson for RefillCase {
    fn to_json(&self) -> serde_json::Value {
        serde_json::json!({"words": self.words, "opts": self.opts.to_json(), "width2": self.width2, "crlf2": self.crlf2, "trailing": self.trailing})
    }
}
impl RefillCase {
    pub fn from_json(v: &serde_json::Value) -> RefillCase {
        RefillCase {
            words: v["words"].as_array().unwrap().iter().map(|w| &*Box::leak(w.as_str().unwrap().to_string().into_boxed_str())).collect(),
            opts: Opts::from_json(&v["opts"]),
            width2: v["width2"].as_u64().unwrap() as usize,
            crlf2: v["crlf2"].as_bool().unwrap(),
            trailing: v["trailing"].as_bool().unwrap(),
        }
    }
}

/// round trip: unfill(fill(paragraph)) recovers paragraph, indents, width, line ending
pub fn c15_roundtrip(c: &RefillCase) -> Outcome {
    let o = &c.opts;
    let para = c.words.join(" ");
    let le = o.le();
    let mut filled = fill(&para, &o.options());
    if c.trailing {
        filled.push_str(le);
    }
    let n_lines = filled.trim_end_matches(le).split(le).count();
    // recorded finding KF2: with break_words on, a first word that does not fit beside the initial indent leaves the
    // indent alone on the first line; unfill turns that line into a leading space (pinned by upstream's own test
    // unfill_only_prefixes_issue_466, so not repairable without editing the suite)
    let kf2 = if o.break_words && !o.initial.is_empty() && filled.split(le).next() == Some(o.initial) && n_lines >= 2 {
        "[class=KF2-indent-only-first-line] "
    } else {
        ""
    };
    let (text, got) = unfill(&filled);
    let mut want_text = para.clone();
    if c.trailing {
        // the trailing ending is reported with the detected line ending
        want_text.push_str(le);
    }
    if text != want_text {
        return Err(format!("{}unfill(fill({:?})) = {:?}, expected {:?}; filled = {:?}", kf2, para, text, want_text, filled));
    }
    if got.initial_indent != o.initial {
        return Err(format!("initial indent {:?}, expected {:?}; filled = {:?}", got.initial_indent, o.initial, filled));
    }
    if n_lines >= 2 {
        if got.subsequent_indent != o.subsequent {
            return Err(format!("subsequent indent {:?}, expected {:?}; filled = {:?}", got.subsequent_indent, o.subsequent, filled));
        }
        let want_le = if o.crlf { LineEnding::CRLF } else { LineEnding::LF };
        if got.line_ending != want_le {
            return Err(format!("line ending {:?}, expected {:?}; filled = {:?}", got.line_ending, want_le, filled));
        }
    }
    let widest = filled.trim_end_matches(le).split(le).map(|l| dw(l)).max().unwrap_or(0);
    if got.width != widest {
        return Err(format!("width {}, widest line {}; filled = {:?}", got.width, widest, filled));
    }
    Ok(n_lines >= 2)
}

/// C16: refill(fill(t, o1), o2) == fill(t, o2 with o1's indents)
pub fn c16_refill(c: &RefillCase) -> Outcome {
    let o1 = &c.opts;
    let para = c.words.join(" ");
    let mut filled = fill(&para, o1.options());
    let n_lines = filled.split(o1.le()).count();
    if n_lines < 2 {
        return Ok(false);
    }
    if c.trailing {
        filled.push_str(o1.le());
    }
    let mut o2 = o1.clone();
    o2.width = c.width2;
    o2.crlf = c.crlf2;
    let kf2 = if o1.break_words && !o1.initial.is_empty() && filled.split(o1.le()).next() == Some(o1.initial) {
        "[class=KF2-indent-only-first-line] "
    } else {
        ""
    };
    let got = refill(&filled, &o2.options());
    let mut want = fill(&para, o2.options());
    if c.trailing {
        want.push_str(o2.le());
    }
    if got != want {
        return Err(format!("{}refill({:?}, width {}) = {:?}, expected fill(original) = {:?}", kf2, filled, c.width2, got, want));
    }
    Ok(true)
}

// ------------------------------------------------------------------------------------------- C18
fn dedent_oracle(s: &str) -> String {
    let lines: Vec<&str> = s.lines().collect();
    let has_text = |l: &str| l.chars().any(|c| !c.is_whitespace());
    // longest string of whitespace characters that is a prefix of every line containing a non-whitespace character
    let mut margin: Option<Vec<char>> = None;
    for l in lines.iter().filter(|l| has_text(l)) {
        let ws: Vec<char> = l.chars().take_while(|c| c.is_whitespace()).collect();
        margin = Some(match margin {
            None => ws,
            Some(m) => m.iter().zip(ws.iter()).take_while(|(a, b)| a == b).map(|(a, _)| *a).collect(),
        });
    }
    let m: String = margin.unwrap_or_default().into_iter().collect();
    let mut out = String::new();
    for l in &lines {
        if has_text(l) {
            out.push_str(&l[m.len()..]);
        }
        out.push('\n');
    }
    if out.ends_with('\n') && !s.ends_with('\n') {
        out.pop();
    }
    out
}

pub fn c18_dedent(c: &StrCase) -> Outcome {
    let s = &c.text;
    let got = dedent(s);
    let want = dedent_oracle(s);
    if got != want {
        return Err(format!("dedent({:?}) = {:?}, the statement's margin rule gives {:?}", s, got, want));
    }
    let twice = dedent(&got);
    if twice != got {
        // a line whose own text ends in '\r' (e.g. "a\r\r\n"): dedent writes it back followed by '\n', which reads as a CRLF the second time
        // the class is the negation of U9's `kf4_free`, on which idempotence is PROVED (theorem c18_dedent_idempotent_cr): a line that is
        // terminated by '\n', has text, and — once its "\n" / "\r\n" is removed — still ends in '\r'
        let pieces: Vec<&str> = s.split('\n').collect();
        let in_class = pieces[..pieces.len() - 1].iter().any(|p| {
            let l = p.strip_suffix('\r').unwrap_or(p);
            l.chars().any(|c| !c.is_whitespace()) && l.ends_with('\r')
        });
        let class = if in_class { "[class=KF4-line-text-ends-in-cr] " } else { "" };
        return Err(format!("{}not idempotent: dedent({:?}) = {:?}, again = {:?}", class, s, got, twice));
    }
    if !s.contains('\r') {
        // whitespace prefixes: blanks, a carriage return, non-ASCII whitespace — and, last, prefixes that contain a line break, for which the
        // statement is false of the code (known finding KF8; U9 proves the corollary for every whitespace prefix WITHOUT '\n')
        for p in [" ", "\t", "  \t", "\r", " \r ", "\u{3000}", "\n", " \n "] {
            let ind = indent(s, p);
            let d = dedent(&ind);
            if d != got {
                let class = if p.contains('\n') { "[class=KF8-prefix-contains-line-break] " } else { "" };
                return Err(format!("{}dedent(indent({:?}, {:?})) = {:?} != dedent = {:?}", class, s, p, d, got));
            }
        }
    }
    Ok(got != *s)
}

// ------------------------------------------------------------------------------------------- C19
fn indent_oracle(s: &str, p: &str) -> String {
    let mut out = String::new();
    let body = s.strip_suffix('\n').unwrap_or(s);
    if s.is_empty() {
        return out;
    }
    for (i, l) in body.split('\n').enumerate() {
        if i > 0 {
            out.push('\n');
        }
        if l.chars().any(|c| !c.is_whitespace()) {
            out.push_str(p);
        } else {
            out.push_str(p.trim_end());
        }
        out.push_str(l);
    }
    if s.ends_with('\n') {
        out.push('\n');
    }
    out
}

pub fn c19_indent(c: &StrCase) -> Outcome {
    let got = indent(&c.text, &c.aux);
    let want = indent_oracle(&c.text, &c.aux);
    if got != want {
        return Err(format!("indent({:?}, {:?}) = {:?}, expected {:?}", c.text, c.aux, got, want));
    }
    if indent(&c.text, "") != c.text {
        return Err(format!("indent({:?}, \"\") changed the text", c.text));
    }
    if got.matches('\n').count() != c.text.matches('\n').count() {
        return Err("newline count changed".into());
    }
    Ok(c.text.contains('\n'))
}

// ------------------------------------------------------------------------------------------- C20
#[derive(Clone, Debug)]
pub struct ColCase {
    pub text: String,
    pub columns: usize,
    pub width: usize,
    pub left: &'static str,
    pub mid: &'static str,
    pub right: &'static str,
    pub break_words: bool,
}
impl crate::harness::CaseJson for ColCase {
    fn to_json(&self) -> serde_json::Value {
        serde_json::json!({"text": self.text, "columns": self.columns, "width": self.width, "left": self.left, "mid": self.mid, "right": self.right, "break_words": self.break_words})
    }
}
impl ColCase {
    pub fn from_json(v: &serde_json::Value) -> ColCase {
        let leak = |s: &str| -> &'static str { Box::leak(s.to_string().into_boxed_str()) };
        ColCase {
            text: v["text"].as_str().unwrap().to_string(),
            columns: v["columns"].as_u64().unwrap() as usize,
            width: v["width"].as_u64().unwrap() as usize,
            left: leak(v["left"].as_str().unwrap()),
            mid: leak(v["mid"].as_str().unwrap()),
            right: leak(v["right"].as_str().unwrap()),
            break_words: v["break_words"].as_bool().unwrap(),
        }
    }
}

pub fn c20_columns(c: &ColCase) -> Outcome {
    let opts = textwrap::Options::new(c.width).break_words(c.break_words);
    let rows = wrap_columns(&c.text, c.columns, &opts, c.left, c.mid, c.right);
    let inner = c.width.saturating_sub(dw(c.left)).saturating_sub(dw(c.right)).saturating_sub(dw(c.mid) * (c.columns - 1));
    let cw = std::cmp::max(inner / c.columns, 1);
    let rem = inner % cw;
    let cells = wrap(&c.text, textwrap::Options::new(cw).break_words(c.break_words));
    let nrows = (cells.len() + c.columns - 1) / c.columns;
    if rows.len() != nrows {
        return Err(format!("{} rows, expected {} ({} lines in {} columns)", rows.len(), nrows, cells.len(), c.columns));
    }
    let mut protrudes = false;
    for r in 0..nrows {
        let mut want = String::from(c.left);
        for col in 0..c.columns {
            match cells.get(r + col * nrows) {
                Some(cell) => {
                    want.push_str(cell);
                    let w = dw(cell);
                    if w > cw {
                        protrudes = true;
                    }
                    want.push_str(&" ".repeat(cw.saturating_sub(w)));
                }
                None => want.push_str(&" ".repeat(cw)),
            }
            if col + 1 == c.columns {
                want.push_str(&" ".repeat(rem));
            } else {
                want.push_str(c.mid);
            }
        }
        want.push_str(c.right);
        if rows[r] != want {
            return Err(format!("row {} is {:?}, expected {:?} (column-major, column width {}, remainder {})", r, rows[r], want, cw, rem));
        }
    }
    if !protrudes {
        let total = dw(c.left) + dw(c.right) + dw(c.mid) * (c.columns - 1) + cw * c.columns + rem;
        // a cell (or gap) that ends inside an unterminated escape sequence swallows the padding that follows it: display widths are
        // then not additive over the row (known finding KF7)
        let swallows = |t: &str| dw(&format!("{}x", t)) == dw(t);
        let open_seq = cells.iter().any(|cell| swallows(cell)) || swallows(c.left) || swallows(c.mid);
        for r in &rows {
            if dw(r) != total {
                return Err(format!("{}row {:?} is {} wide, expected {}", if open_seq { "[class=KF7-unterminated-sequence-swallows-padding] " } else { "" }, r, dw(r), total));
            }
        }
    }
    let _ = (display_width(""), WordSeparator::AsciiSpace);
    Ok(nrows >= 2 || protrudes)
}

// ------------------------------------------------------------------------------------------- A4
/// A4 — the std behaviour the Verus side-cars ASSUME of the transparent wrappers, re-stated here in executable form (a
/// hand translation of the spec functions in /verif/contracts) and compared with the real std functions.
pub fn a4_std_models(c: &StrCase) -> Outcome {
    let s = c.text.as_str();
    let b = s.as_bytes();
    // --- str::lines  (prelude/lines_bytes.vrs: lines_b)
    fn lines_b(b: &[u8]) -> Vec<Vec<u8>> {
        if b.is_empty() {
            return vec![];
        }
        match b.iter().position(|&x| x == 10) {
            None => vec![b.to_vec()],
            Some(i) => {
                let mut head = b[..i].to_vec();
                if head.last() == Some(&13) {
                    head.pop();
                }
                let mut v = vec![head];
                v.extend(lines_b(&b[i + 1..]));
                v
            }
        }
    }
    let real: Vec<Vec<u8>> = s.lines().map(|l| l.as_bytes().to_vec()).collect();
    if real != lines_b(b) {
        return Err(format!("str::lines({:?}) = {:?}, the model gives {:?}", s, real, lines_b(b)));
    }
    // --- U9's axiom cr_is_ws
    if !'\r'.is_whitespace() {
        return Err("char::is_whitespace('\\r') is false".to_string());
    }
    // --- U9's axiom lines_model, literally: str::lines is lines_c — the '\n'-separated pieces; a piece terminated by '\n' loses one
    // '\r' directly before it; the unterminated last piece is kept as it is (CR included) and dropped when empty
    {
        let p: Vec<&str> = s.split('\n').collect();
        let k = p.len();
        let n = if p[k - 1].is_empty() { k - 1 } else { k };
        let model: Vec<&str> = (0..n).map(|i| if i + 1 < k { p[i].strip_suffix('\r').unwrap_or(p[i]) } else { p[i] }).collect();
        let ls: Vec<&str> = s.lines().collect();
        if model != ls {
            return Err(format!("str::lines({:?}) = {:?} but the model lines_c gives {:?}", s, ls, model));
        }
    }
    // --- ... hence (U9's lemma lines_is_split_term) without a carriage return str::lines is split_terminator('\n')
    if !s.contains('\r') {
        let st: Vec<&str> = s.split_terminator('\n').collect();
        let ls: Vec<&str> = s.lines().collect();
        if st != ls {
            return Err(format!("str::lines({:?}) = {:?} but split_terminator('\\n') gives {:?}", s, ls, st));
        }
    }
    // --- str::split(&str) / split(char): pieces with positions  (u11: VxSplitStr, u10: VxSplitChar)
    for sep in ["\n", "\r\n"] {
        let pieces: Vec<&str> = s.split(sep).collect();
        if pieces.is_empty() {
            return Err(format!("split({:?}) of {:?} yields no piece", sep, s));
        }
        if !s.contains(sep) && pieces != vec![s] {
            return Err(format!("split({:?}) of {:?}: separator absent but pieces {:?}", sep, s, pieces));
        }
        let mut pos = 0usize;
        for (k, p) in pieces.iter().enumerate() {
            let n = p.len();
            if pos + n > s.len() || &s[pos..pos + n] != *p || p.contains(sep) {
                return Err(format!("split({:?}) of {:?}: piece {} {:?} is not the separator-free text at offset {}", sep, s, k, p, pos));
            }
            if k + 1 < pieces.len() {
                if pos + n + sep.len() > s.len() || &s[pos + n..pos + n + sep.len()] != sep {
                    return Err(format!("split({:?}) of {:?}: piece {} is not followed by the separator", sep, s, k));
                }
            } else if pos + n != s.len() {
                return Err(format!("split({:?}) of {:?}: the last piece does not end at the end of the text", sep, s));
            }
            pos += n + sep.len();
        }
    }
    // --- str::split(&str) against the scan model of u11 (split_scan: leftmost non-overlapping occurrences, scanning from the left)
    fn split_scan(t: &[u8], sep: &[u8]) -> Vec<Vec<u8>> {
        let (mut out, mut start, mut i) = (vec![], 0usize, 0usize);
        loop {
            if i + sep.len() > t.len() {
                out.push(t[start..].to_vec());
                return out;
            }
            if &t[i..i + sep.len()] == sep {
                out.push(t[start..i].to_vec());
                start = i + sep.len();
                i = start;
            } else {
                i += 1;
            }
        }
    }
    for sep in ["\n", "\r\n"] {
        let real: Vec<Vec<u8>> = s.split(sep).map(|p| p.as_bytes().to_vec()).collect();
        if real != split_scan(b, sep.as_bytes()) {
            return Err(format!("split({:?}) of {:?} = {:?}, the scan model gives {:?}", sep, s, real, split_scan(b, sep.as_bytes())));
        }
    }
    // --- str::split over a concatenation  (u11: lemma split_concat, used by the C09 theorem): for every cut of s into a ++ b,
    //     split(a ++ sep ++ b) == split(a) ++ split(b) for both line endings
    for sep in ["\n", "\r\n"] {
        for k in 0..=s.len() {
            if !s.is_char_boundary(k) {
                continue;
            }
            let (a, b2) = (&s[..k], &s[k..]);
            let joined = format!("{}{}{}", a, sep, b2);
            let mut expect: Vec<&str> = a.split(sep).collect();
            expect.extend(b2.split(sep));
            if joined.split(sep).collect::<Vec<_>>() != expect {
                return Err(format!("split({:?}) of {:?} ++ sep ++ {:?} is not split(a) ++ split(b)", sep, a, b2));
            }
        }
    }
    if s.split('\n').collect::<Vec<_>>() != s.split("\n").collect::<Vec<_>>() {
        return Err(format!("split('\\n') and split(\"\\n\") differ on {:?}", s));
    }
    // --- str::split_terminator('\n')  (u8: split_term_spec = split pieces without a trailing empty piece)
    let mut st: Vec<&str> = s.split('\n').collect();
    if st.last() == Some(&"") {
        st.pop();
    }
    if s.split_terminator('\n').collect::<Vec<_>>() != st {
        return Err(format!("split_terminator('\\n') of {:?} = {:?}, the model gives {:?}", s, s.split_terminator('\n').collect::<Vec<_>>(), st));
    }
    // --- trim_end_matches(' ') (is_space_trim), trim_end / trim_start / trim (std_more.vrs, u8: trim_end_spec)
    let t = s.trim_end_matches(' ');
    if !(s.starts_with(t) && s[t.len()..].bytes().all(|x| x == 32) && !t.ends_with(' ')) {
        return Err(format!("trim_end_matches(' ') of {:?} = {:?}", s, t));
    }
    let te = s.trim_end();
    if !(s.starts_with(te) && s[te.len()..].chars().all(char::is_whitespace) && !te.chars().next_back().map_or(false, char::is_whitespace)) {
        return Err(format!("trim_end of {:?} = {:?}", s, te));
    }
    let ts = s.trim_start();
    if !(s.ends_with(ts) && s[..s.len() - ts.len()].chars().all(char::is_whitespace) && !ts.chars().next().map_or(false, char::is_whitespace)) {
        return Err(format!("trim_start of {:?} = {:?}", s, ts));
    }
    if s.trim() != s.trim_start().trim_end() || s.trim().is_empty() != s.chars().all(char::is_whitespace) {
        return Err(format!("trim of {:?} = {:?}", s, s.trim()));
    }
    // --- find('\n') (u4), match_indices('-') (u16), char_indices (u9, u15, u18, u20): byte offsets of char starts
    let first = b.iter().position(|&x| x == 10);
    if s.find('\n') != first {
        return Err(format!("find('\\n') of {:?} = {:?}, first LF byte at {:?}", s, s.find('\n'), first));
    }
    let mut off = 0usize;
    let mut ci = Vec::new();
    for ch in s.chars() {
        ci.push((off, ch));
        off += ch.len_utf8();
    }
    if s.char_indices().collect::<Vec<_>>() != ci {
        return Err(format!("char_indices of {:?}", s));
    }
    let mi: Vec<usize> = ci.iter().filter(|(_, ch)| *ch == '-').map(|(o, _)| *o).collect();
    if s.match_indices('-').map(|(i, _)| i).collect::<Vec<_>>() != mi {
        return Err(format!("match_indices('-') of {:?}", s));
    }
    // --- String::len / str::len are byte lengths; is_empty
    if s.len() != b.len() || s.is_empty() != (s.chars().count() == 0) {
        return Err(format!("len / is_empty of {:?}", s));
    }
    // --- Cow<str>: `+=` and to_mut().push_str (u11: vx_cow_add_assign, vx_cow_to_mut_push_str): bytes and borrowedness
    {
        use std::borrow::Cow;
        let is_b = |c: &Cow<'_, str>| matches!(c, Cow::Borrowed(_));
        let half = s.len() / 2;
        let cut = (0..=half).rev().find(|&i| s.is_char_boundary(i)).unwrap_or(0);
        let (l, r) = s.split_at(cut);
        for lhs in [Cow::Borrowed(l), Cow::Owned(l.to_string())] {
            let mut c = lhs.clone();
            c += r;
            let want_borrowed = if l.is_empty() { true } else if r.is_empty() { is_b(&lhs) } else { false };
            if c.as_ref() != s || is_b(&c) != want_borrowed {
                return Err(format!("Cow += : {:?} += {:?} gives {:?} (borrowed: {}), the model says borrowed: {}", lhs, r, c, is_b(&c), want_borrowed));
            }
            let mut d = lhs.clone();
            d.to_mut().push_str(r);
            if d.as_ref() != s || is_b(&d) {
                return Err(format!("Cow::to_mut().push_str: {:?} + {:?} gives {:?} (borrowed: {})", lhs, r, d, is_b(&d)));
            }
        }
        if !is_b(&Cow::from(s)) || is_b(&Cow::<str>::Owned(s.to_string())) {
            return Err("Cow::from(&str) / Cow::Owned".into());
        }
    }
    // --- once: the byte/char classifiers of std_more.vrs on their whole domain
    if c.text.is_empty() {
        for x in 0u8..=255 {
            if x.is_ascii_whitespace() != (x == 32 || x == 9 || x == 10 || x == 12 || x == 13) {
                return Err(format!("u8::is_ascii_whitespace({})", x));
            }
        }
        for u in 0u32..0x110000 {
            if let Some(ch) = char::from_u32(u) {
                if ch.is_ascii() != (u < 128) {
                    return Err(format!("char::is_ascii(U+{:04X})", u));
                }
            }
        }
    }
    Ok(s.len() >= 2)
}
