//! Executable contracts for display_width, word finding, splitting and force-breaking (C10, C11, C12).
use crate::common::*;
use crate::harness::Outcome;
use crate::words::*;
use textwrap::core::{break_words, display_width, Word};
use textwrap::word_splitters::split_words;
use textwrap::{WordSeparator, WordSplitter};

// ------------------------------------------------------------------------------------------- C10
pub fn c10_scalar(c: &StrCase) -> Outcome {
    // c.n is the first code point of a block of 256 scalar values
    let mut nontrivial = false;
    for cp in c.n as u32..c.n as u32 + 256 {
        if let Some(ch) = char::from_u32(cp) {
            if ch == ESC {
                continue;
            }
            let s = ch.to_string();
            let got = display_width(&s);
            let want = ch_width_oracle(ch);
            if got != want {
                return Err(format!("display_width(U+{:04X}) = {}, the width table says {}", cp, got, want));
            }
            if got > s.len() {
                return Err(format!("display_width(U+{:04X}) = {} exceeds the byte length {}", cp, got, s.len()));
            }
            if want != 1 {
                nontrivial = true;
            }
        }
    }
    Ok(nontrivial)
}

pub fn c10_strings(c: &StrCase) -> Outcome {
    let t = &c.text;
    let got = display_width(t);
    if got > t.len() {
        return Err(format!("display_width({:?}) = {} exceeds the byte length {}", t, got, t.len()));
    }
    let mut nontrivial = false;
    if let Some(want) = dw_oracle(t) {
        if got != want {
            return Err(format!("display_width({:?}) = {}, sum of widths outside sequences = {}", t, got, want));
        }
        nontrivial = t.contains(ESC);
        // unchanged by inserting a well-formed sequence at any character boundary that is not inside a sequence
        let pieces = ansi_pieces(t).unwrap();
        let mut off = 0;
        let mut cuts = vec![0];
        for (_, p) in &pieces {
            off += p.len();
            cuts.push(off);
        }
        for ins in ["\x1b[31m", "\x1b]8;;x\x1b\\", "\x1b]0;t\x07"] {
            for &cut in &cuts {
                let u = format!("{}{}{}", &t[..cut], ins, &t[cut..]);
                let g = display_width(&u);
                if g != got {
                    return Err(format!("inserting {:?} at byte {} of {:?} changes the width from {} to {}", ins, cut, t, got, g));
                }
            }
        }
    }
    // additive over concatenation of ESC-free strings
    if !t.contains(ESC) {
        for (i, _) in t.char_indices() {
            let (a, b) = t.split_at(i);
            if display_width(a) + display_width(b) != got {
                return Err(format!("not additive: {:?} + {:?}", a, b));
            }
        }
    }
    Ok(nontrivial)
}

// ------------------------------------------------------------------------------------------- C11
fn check_words_generic(line: &str, words: &[Word<'_>]) -> Result<Vec<usize>, String> {
    let mut rebuilt = String::new();
    let mut starts = Vec::new();
    for (k, w) in words.iter().enumerate() {
        if k > 0 {
            starts.push(rebuilt.len());
        }
        rebuilt.push_str(w.word);
        rebuilt.push_str(w.whitespace);
        if !w.whitespace.bytes().all(|b| b == b' ') {
            return Err(format!("whitespace {:?} of word {} is not only spaces", w.whitespace, k));
        }
        if w.word.ends_with(' ') {
            return Err(format!("word {:?} ends in a space", w.word));
        }
        if !w.penalty.is_empty() {
            return Err(format!("word {:?} has penalty {:?}", w.word, w.penalty));
        }
        let expect = dw_oracle(w.word).unwrap_or_else(|| display_width(w.word));
        if w.width != expect {
            return Err(format!("cached width {} of {:?} != display width {}", w.width, w.word, expect));
        }
    }
    if rebuilt != line {
        return Err(format!("words {:?} do not reproduce the line {:?}", words, line));
    }
    Ok(starts)
}

pub fn c11_ascii(c: &StrCase) -> Outcome {
    let words: Vec<Word<'_>> = WordSeparator::AsciiSpace.find_words(&c.text).collect();
    let starts = check_words_generic(&c.text, &words)?;
    let want = ascii_boundaries(&c.text);
    if starts != want {
        return Err(format!("ASCII separator: boundaries {:?}, expected {:?} (space followed by non-space) in {:?}", starts, want, c.text));
    }
    Ok(words.len() >= 2)
}

#[cfg(feature = "full")]
pub fn c11_unicode(c: &StrCase) -> Outcome {
    let words: Vec<Word<'_>> = WordSeparator::UnicodeBreakProperties.find_words(&c.text).collect();
    let starts = check_words_generic(&c.text, &words)?;
    let cands = match unicode_boundary_candidates(&c.text) {
        Some(c) => c,
        None => return Ok(false), // ESC not starting a well-formed sequence: only the generic half applies
    };
    // one boundary per opportunity, in order, each at an admissible position
    let mut want: Vec<&Vec<usize>> = cands.iter().collect();
    // several opportunities can never share candidates; boundaries at position 0 or len() produce no word start
    want.retain(|v| v.iter().any(|&p| p > 0 && p < c.text.len()));
    if starts.len() != want.len() {
        return Err(format!("Unicode separator: boundaries {:?} but UAX#14 gives {} opportunities at (candidates) {:?} in {:?}", starts, want.len(), want, c.text));
    }
    for (s, w) in starts.iter().zip(want.iter()) {
        if !w.contains(s) {
            return Err(format!("Unicode separator: boundary at byte {} is not at an opportunity (admissible {:?}); all boundaries {:?} in {:?}", s, w, starts, c.text));
        }
    }
    Ok(words.len() >= 2)
}


/// A13 — the shape Verus unit U20 ASSUMES of unicode_linebreak::linebreaks(s): strictly increasing byte offsets, each in
/// 1..=s.len(), each on a char boundary. Checked here on the real crate, on the
/// ESC-stripped text exactly as find_words_unicode_break_properties passes it.
#[cfg(feature = "full")]
pub fn a13_linebreaks_shape(c: &StrCase) -> Outcome {
    let stripped = strip_ansi(&c.text).unwrap_or_default();
    for s in [c.text.as_str(), stripped.as_str()] {
        let pts: Vec<usize> = unicode_linebreak::linebreaks(s).map(|(i, _)| i).collect();
        let mut prev = 0usize;
        for &p in &pts {
            if p == 0 || p > s.len() || !s.is_char_boundary(p) {
                return Err(format!("linebreaks({:?}) reports {} which is not a char boundary in 1..={}", s, p, s.len()));
            }
            if p <= prev && prev != 0 {
                return Err(format!("linebreaks({:?}) is not strictly increasing: {:?}", s, pts));
            }
            prev = p;
        }
    }
    Ok(c.text.len() >= 2)
}

// ------------------------------------------------------------------------------------------- C12
pub fn c12_split(c: &StrCase) -> Outcome {
    // c.text is one word (possibly with trailing spaces); c.aux names the splitter
    let spl = match c.aux.as_str() { "Hyphen" => Spl::Hyphen, "Every2" => Spl::Every2, _ => Spl::None };
    let splitter = match spl { Spl::None => WordSplitter::NoHyphenation, Spl::Hyphen => WordSplitter::HyphenSplitter, Spl::Every2 => WordSplitter::Custom(every2) };
    let mut word = Word::from(&c.text);
    if c.n == 1 {
        word.penalty = "-"; // an incoming penalty must end up on the last piece only
    }
    let pts_lib = splitter.split_points(word.word);
    let pts = split_points_oracle(spl, word.word);
    if pts_lib != pts {
        return Err(format!("split points of {:?}: {:?}, expected {:?}", word.word, pts_lib, pts));
    }
    let pieces: Vec<Word<'_>> = split_words(vec![word], &splitter).collect();
    let mut cuts = vec![0usize];
    cuts.extend(pts.iter().copied());
    cuts.push(word.word.len());
    // the code yields a final piece only if something is left (or nothing was yielded)
    let mut expect: Vec<(&str, &str, &str)> = Vec::new();
    for w in cuts.windows(2) {
        let piece = &word.word[w[0]..w[1]];
        let last = w[1] == word.word.len();
        if last {
            if piece.is_empty() && !expect.is_empty() {
                // split point at the very end: the previous piece is the last one (keeps hyphen penalty semantics of the statement)
                continue;
            }
            expect.push((piece, word.whitespace, word.penalty));
        } else {
            let pen = if piece.ends_with('-') { "" } else { "-" };
            expect.push((piece, "", pen));
        }
    }
    let got: Vec<(&str, &str, &str)> = pieces.iter().map(|p| (p.word, p.whitespace, p.penalty)).collect();
    // concatenation
    let cat: String = pieces.iter().map(|p| p.word).collect();
    if cat != word.word {
        return Err(format!("pieces {:?} do not concatenate to {:?}", got, word.word));
    }
    if pts.last() != Some(&word.word.len()) && got != expect {
        return Err(format!("split_words({:?}, {:?}) = {:?}, expected {:?}", word, spl, got, expect));
    }
    for p in &pieces {
        let e = dw_oracle(p.word).unwrap_or_else(|| display_width(p.word));
        if p.width != e {
            return Err(format!("piece {:?} has cached width {}, display width {}", p.word, p.width, e));
        }
    }
    Ok(pieces.len() >= 2)
}

pub fn c12_break(c: &StrCase) -> Outcome {
    let limit = c.n;
    let mut word = Word::from(&c.text);
    if c.aux == "pen" {
        word.penalty = "-";
    }
    let pieces: Vec<Word<'_>> = word.break_apart(limit).collect();
    let cat: String = pieces.iter().map(|p| p.word).collect();
    if cat != word.word {
        return Err(format!("break_apart({:?}, {}) pieces {:?} do not concatenate to the word", word.word, limit, pieces));
    }
    let wf = well_formed(word.word);
    for (k, p) in pieces.iter().enumerate() {
        if p.word.is_empty() {
            return Err(format!("empty piece {} in {:?}", k, pieces));
        }
        let last = k + 1 == pieces.len();
        if last {
            if p.whitespace != word.whitespace || p.penalty != word.penalty {
                return Err(format!("last piece {:?} lost whitespace/penalty of {:?}", p, word));
            }
        } else if !p.whitespace.is_empty() || !p.penalty.is_empty() {
            return Err(format!("inner piece {:?} carries whitespace/penalty", p));
        }
        if wf {
            let w = dw(p.word);
            if p.width != w {
                return Err(format!("piece {:?} has cached width {}, display width {}", p.word, p.width, w));
            }
            if w > limit && count_nonzero_width_chars(p.word) > 1 {
                return Err(format!("piece {:?} is {} wide (> {}) and has several non-zero-width characters; pieces {:?}", p.word, w, limit, pieces));
            }
            // not cut inside a sequence: every piece is itself well-formed
            if !well_formed(p.word) {
                return Err(format!("piece {:?} cuts an escape sequence; pieces {:?}", p.word, pieces));
            }
            if !last {
                // maximal: the first (visible) character of the following piece would not have fitted
                let next = strip_ansi(pieces[k + 1].word).unwrap_or_default();
                if let Some(ch) = next.chars().next() {
                    if w + ch_width_oracle(ch) <= limit {
                        return Err(format!("piece {:?} ({} cols) could have taken {:?} within {}; pieces {:?}", p.word, w, ch, limit, pieces));
                    }
                }
            }
        }
    }
    // pass-through of words that are not too wide
    let out = break_words(vec![word], limit);
    if word.width <= limit && out != vec![word] {
        return Err(format!("word {:?} (width {}) is not wider than {} but break_words changed it to {:?}", word.word, word.width, limit, out));
    }
    let cat2: String = out.iter().map(|p| format!("{}{}", p.word, p.whitespace)).collect();
    if cat2 != c.text {
        return Err(format!("break_words lost text: {:?} -> {:?}", c.text, out));
    }
    Ok(pieces.len() >= 2)
}
