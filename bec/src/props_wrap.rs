//! Executable contracts over wrap / fill / fill_inplace (C01, C02, C05, C07 text level, C08, C09, C13, C14, C17).
use crate::common::*;
use crate::harness::Outcome;
use crate::words::*;
use std::borrow::Cow;
use textwrap::{fill, fill_inplace, wrap};

#[derive(Clone, Debug, PartialEq)]
pub struct Span {
    pub a: usize,
    pub b: usize,
    pub hyphen: bool,
}

fn skippable(text: &str, from: usize, to: usize, le: &str) -> bool {
    // only ASCII spaces and complete line-ending sequences
    let mut i = from;
    let b = text.as_bytes();
    while i < to {
        if b[i] == b' ' {
            i += 1;
        } else if text[i..to].starts_with(le) {
            i += le.len();
        } else {
            return false;
        }
    }
    true
}

/// C01: find in-order, non-overlapping slices of `text` that explain `lines`.
pub fn match_lines(text: &str, o: &Opts, lines: &[Cow<'_, str>]) -> Result<Vec<Span>, String> {
    match_lines_opt(text, o, lines, false)
}

/// `no_trailing_space`: only accept explanations in which no slice ends in a space
pub fn match_lines_opt(text: &str, o: &Opts, lines: &[Cow<'_, str>], no_trailing_space: bool) -> Result<Vec<Span>, String> {
    let le = o.le();
    let base = text.as_ptr() as usize;
    // candidate bodies per line
    struct Cand<'x> {
        body: &'x str,
        hyphen: bool,
        fixed: Option<usize>,
    }
    let mut cands: Vec<Vec<Cand>> = Vec::new();
    for (k, line) in lines.iter().enumerate() {
        let ind = o.indent_of(k);
        let rest = match line.strip_prefix(ind) {
            Some(r) => r,
            None => return Err(format!("line {} {:?} does not start with its indent {:?}", k, line, ind)),
        };
        let mut v = Vec::new();
        let may_hyphen = o.spl == Spl::Every2 && rest.ends_with('-');
        let mut fixed = None;
        if ind.is_empty() && !may_hyphen {
            // must be a borrowed sub-slice of the caller's buffer
            match line {
                Cow::Borrowed(s) => {
                    if !s.is_empty() {
                        let p = s.as_ptr() as usize;
                        if p < base || p + s.len() > base + text.len() {
                            return Err(format!("line {} {:?} is borrowed but not from the input buffer", k, line));
                        }
                        fixed = Some(p - base);
                    }
                }
                Cow::Owned(_) => return Err(format!("line {} {:?} has no indent and no inserted hyphen but is not borrowed", k, line)),
            }
        }
        if !(no_trailing_space && rest.ends_with(' ')) {
            v.push(Cand { body: rest, hyphen: false, fixed });
        }
        if may_hyphen && !(no_trailing_space && rest[..rest.len() - 1].ends_with(' ')) {
            v.push(Cand { body: &rest[..rest.len() - 1], hyphen: true, fixed: None });
        }
        cands.push(v);
    }
    // backtracking over (k, pos)
    fn go(text: &str, le: &str, cands: &[Vec<Cand>], k: usize, pos: usize, acc: &mut Vec<Span>) -> bool {
        if k == cands.len() {
            return skippable(text, pos, text.len(), le);
        }
        for c in &cands[k] {
            // admissible starts: pos, then past spaces / line endings (none before the first slice)
            let mut a = pos;
            loop {
                let ok_fixed = c.fixed.map_or(true, |f| f == a || c.body.is_empty());
                if ok_fixed && text.is_char_boundary(a) && text[a..].starts_with(c.body) {
                    acc.push(Span { a, b: a + c.body.len(), hyphen: c.hyphen });
                    if go(text, le, cands, k + 1, a + c.body.len(), acc) {
                        return true;
                    }
                    acc.pop();
                }
                if k == 0 || a >= text.len() {
                    break;
                }
                if text.as_bytes()[a] == b' ' {
                    a += 1;
                } else if text[a..].starts_with(le) {
                    a += le.len();
                } else {
                    break;
                }
            }
        }
        false
    }
    let mut acc = Vec::new();
    if go(text, le, &cands, 0, 0, &mut acc) {
        Ok(acc)
    } else {
        Err(format!("lines {:?} are not indent + in-order slices of the input (+ optional inserted hyphen) with only spaces / line endings skipped", lines))
    }
}

pub fn c01_slices(c: &TextCase) -> Outcome {
    let o = &c.opts;
    let lines = wrap(&c.text, o.options());
    // a slice never ends in a space, except when break_words cut a word that itself contains a space (Unicode separator only):
    // where the exception cannot apply, only explanations without such slices are accepted
    let strict = !(o.sep == Sep::Unicode && o.break_words);
    let spans = match match_lines_opt(&c.text, o, &lines, strict) {
        Ok(s) => s,
        Err(e) => {
            return Err(match match_lines_opt(&c.text, o, &lines, false) {
                Ok(_) => format!("a slice ends in a space: every way to read {:?} as indent + in-order slices of the input needs a slice with a trailing space", lines),
                Err(_) => e,
            })
        }
    };
    // fill = the same lines joined
    let filled = fill(&c.text, o.options());
    let joined = lines.join(o.le());
    if filled != joined {
        return Err(format!("fill {:?} != wrap lines joined {:?}", filled, joined));
    }
    Ok(lines.len() >= 2 || spans.iter().any(|s| s.hyphen))
}

/// C02: first-fit lines fit unless the part after the indent is one unbreakable fragment
pub fn c02_fits(c: &TextCase) -> Outcome {
    let o = &c.opts;
    if o.algo != Algo::FirstFit || !well_formed(&c.text) {
        return Ok(false);
    }
    let lines = wrap(&c.text, o.options());
    let spans = match_lines(&c.text, o, &lines)?;
    let mut nontrivial = false;
    // paragraph extents
    let le = o.le();
    let mut para_bounds = Vec::new();
    let mut p = 0;
    for para in c.text.split(le) {
        para_bounds.push((p, p + para.len()));
        p += para.len() + le.len();
    }
    for (k, line) in lines.iter().enumerate() {
        let w = dw(line);
        if w <= o.width {
            continue;
        }
        nontrivial = true;
        let s = &spans[k];
        let body = &c.text[s.a..s.b];
        if o.break_words {
            // a piece with at most one non-zero-width character
            if count_nonzero_width_chars(body) > 1 {
                return Err(format!("line {} {:?} is {} columns wide (> {}) although break_words is on and it holds more than one non-zero-width character; lines={:?}", k, line, w, o.width, lines));
            }
        } else {
            // no break opportunity of the separator and no split point of the splitter inside the slice
            let (pa, pb) = match para_bounds.iter().find(|(x, y)| *x <= s.a && s.b <= *y) {
                Some(x) => *x,
                None => return Err(format!("slice {} spans a line ending", k)),
            };
            let para = &c.text[pa..pb];
            if let Some(bps) = soft_break_positions(para, o.sep, o.spl) {
                if let Some(bp) = bps.iter().find(|&&bp| pa + bp > s.a && pa + bp < s.b) {
                    if dw(body) == 0 && !s.hyphen {
                        // the whole overflow is the indent's: recorded finding KF1 (no arrangement could be narrower)
                        return Err(format!("[class=KF1-indent-wider-than-width-zero-width-rest] line {} {:?} is {} columns wide (> {}): its indent alone exceeds the width and the zero-width rest {:?} still contains a break opportunity (byte {} of its paragraph); lines={:?}", k, line, w, o.width, body, bp, lines));
                    }
                    return Err(format!("line {} {:?} is {} columns wide (> {}) but could have been broken at byte {} of its paragraph; lines={:?}", k, line, w, o.width, bp, lines));
                }
            }
        }
    }
    Ok(nontrivial || lines.len() >= 3)
}

/// C05: shortcut unobservable + "fits => one line"
#[cfg(fuzzing)]
pub fn c05_shortcut(c: &TextCase) -> Outcome {
    let o = &c.opts;
    let opt = o.options();
    let mut nontrivial = false;
    // per paragraph: fast path vs slow path with the same prior state
    for prior in [0usize, 1] {
        for para in c.text.split(o.le()) {
            let mut a: Vec<Cow<'_, str>> = (0..prior).map(|_| Cow::from("x")).collect();
            let mut b = a.clone();
            textwrap::fuzzing::wrap_single_line(para, &opt, &mut a);
            textwrap::fuzzing::wrap_single_line_slow_path(para, &opt, &mut b);
            if a != b {
                return Err(format!("paragraph {:?} with {} earlier line(s): wrap_single_line gives {:?}, the slow path {:?}", para, prior, a, b));
            }
            let ind = if prior == 0 { o.initial } else { o.subsequent };
            if para.len() >= o.width && ind.is_empty() && dw(para) < o.width {
                nontrivial = true; // slow path taken although the text fits
            }
        }
    }
    let f1 = fill(&c.text, o.options());
    let f2 = textwrap::fuzzing::fill_slow_path(&c.text, o.options());
    if f1 != f2 {
        return Err(format!("fill {:?} differs from fill_slow_path {:?}", f1, f2));
    }
    // fits => exactly [indent ++ trimmed paragraph]   (first-fit and default-penalty optimal-fit)
    let lines = wrap(&c.text, o.options());
    let paras: Vec<&str> = c.text.split(o.le()).collect();
    if well_formed(&c.text) && paras.iter().enumerate().all(|(k, p)| dw(p) + dw(o.indent_of(k)) <= o.width) {
        let expect: Vec<String> = paras.iter().enumerate().map(|(k, p)| format!("{}{}", o.indent_of(k), p.trim_end_matches(' '))).collect();
        let got: Vec<String> = lines.iter().map(|l| l.to_string()).collect();
        if got != expect {
            // the ASCII-space separator also splits at a space INSIDE an escape sequence, the hyphen splitter at a hyphen inside one; the
            // pieces are then measured as cut-off sequences / plain text
            let class = seq_cut_class(&c.text, o);
            return Err(format!("{}every paragraph fits (width {}), expected {:?}, got {:?}", class, o.width, expect, got));
        }
    }
    Ok(nontrivial)
}
#[cfg(not(fuzzing))]
pub fn c05_shortcut(_c: &TextCase) -> Outcome {
    Err("bec must be built with --cfg fuzzing".into())
}

/// C08: indents; the remainder depends only on the indents' display widths and emptiness
pub fn c08_indent(c: &TextCase) -> Outcome {
    let o = &c.opts;
    let lines = wrap(&c.text, o.options());
    for (k, l) in lines.iter().enumerate() {
        if !l.starts_with(o.indent_of(k)) {
            return Err(format!("line {} {:?} does not start with {:?}; lines={:?}", k, l, o.indent_of(k), lines));
        }
    }
    // same widths, different characters
    fn surrogate(s: &str) -> &'static str {
        const X: [&str; 9] = ["", "x", "xx", "xxx", "xxxx", "xxxxx", "xxxxxx", "xxxxxxx", "xxxxxxxx"];
        X[dw(s).min(8)]
    }
    if dw(o.initial) <= 8 && dw(o.subsequent) <= 8 && (dw(o.initial) > 0 || o.initial.is_empty()) && (dw(o.subsequent) > 0 || o.subsequent.is_empty()) {
        let mut o2 = o.clone();
        o2.initial = surrogate(o.initial);
        o2.subsequent = surrogate(o.subsequent);
        let lines2 = wrap(&c.text, o2.options());
        if lines.len() != lines2.len() {
            return Err(format!("line count changes with the indent characters: {:?} vs {:?}", lines, lines2));
        }
        for k in 0..lines.len() {
            let r1 = lines[k].strip_prefix(o.indent_of(k)).unwrap_or("?");
            let r2 = lines2[k].strip_prefix(o2.indent_of(k)).unwrap_or("??");
            if r1 != r2 {
                return Err(format!("remainder of line {} depends on the indent characters: {:?} vs {:?}", k, lines, lines2));
            }
        }
    }
    Ok(lines.len() >= 2 && (!o.initial.is_empty() || !o.subsequent.is_empty()))
}

/// C09: paragraphs wrap independently; fill joins; LF <-> CRLF equivariance
pub fn c09_paragraphs(c: &TextCase) -> Outcome {
    let o = &c.opts;
    let le = o.le();
    let lines = wrap(&c.text, o.options());
    let paras: Vec<&str> = c.text.split(le).collect();
    if lines.len() < paras.len() {
        return Err(format!("{} paragraphs but only {} lines: {:?}", paras.len(), lines.len(), lines));
    }
    let filled = fill(&c.text, o.options());
    if filled != lines.join(le) {
        return Err(format!("fill {:?} is not wrap's lines {:?} joined by the line ending", filled, lines));
    }
    // options passed by reference behave like options passed by value
    let opt = o.options();
    let by_ref = wrap(&c.text, &opt);
    if by_ref != lines {
        return Err(format!("wrap(text, &options) = {:?} differs from wrap(text, options) = {:?}", by_ref, lines));
    }
    if fill(&c.text, &opt) != filled {
        return Err(format!("fill(text, &options) = {:?} differs from fill(text, options) = {:?}", fill(&c.text, &opt), filled));
    }
    let mut nontrivial = false;
    // split at each paragraph break: text = a + E + b
    let mut off = 0;
    for k in 0..paras.len() - 1 {
        off += paras[k].len();
        let a = &c.text[..off];
        let b = &c.text[off + le.len()..];
        off += le.len();
        let la = wrap(a, o.options());
        if lines.len() < la.len() || lines[..la.len()] != la[..] {
            return Err(format!("wrap(a+E+b) does not begin with wrap(a): a={:?} b={:?} all={:?} wrap(a)={:?}", a, b, lines, la));
        }
        let tail = &lines[la.len()..];
        // the remaining lines do not depend on a
        let alt = format!("zz zz{}{}", le, b);
        let lalt = wrap(&alt, o.options());
        let na = wrap("zz zz", o.options()).len();
        if lalt.len() < na || lalt[na..] != tail[..] {
            return Err(format!("lines after the break depend on the text before it: a={:?} b={:?}: {:?} vs with a'=\"zz zz\": {:?}", a, b, tail, &lalt[na.min(lalt.len())..]));
        }
        if o.initial.is_empty() && o.subsequent.is_empty() {
            let lb = wrap(b, o.options());
            if lb[..] != tail[..] {
                return Err(format!("with empty indents the lines after the break {:?} differ from wrap(b) {:?}", tail, lb));
            }
        }
        nontrivial = true;
    }
    // LF -> CRLF equivariance (texts without '\r')
    if !o.crlf && !c.text.contains('\r') {
        let mut o2 = o.clone();
        o2.crlf = true;
        let t2 = c.text.replace('\n', "\r\n");
        let f2 = fill(&t2, o2.options());
        if f2 != filled.replace('\n', "\r\n") {
            return Err(format!("CRLF: fill({:?}) = {:?}, expected {:?}", t2, f2, filled.replace('\n', "\r\n")));
        }
    }
    Ok(nontrivial)
}

/// C07 (text level): for the ASCII separator, the hyphen or no splitter and no force-breaking, the fragments are the
/// space-delimited words cut at the splitter's split points, so the greedy rule of the statement determines the output.
pub fn c07_text(c: &TextCase) -> Outcome {
    let o = &c.opts;
    if o.algo != Algo::FirstFit || o.spl == Spl::Every2 || o.sep != Sep::Ascii || o.break_words || !well_formed(&c.text) {
        return Ok(false);
    }
    let lines = wrap(&c.text, o.options());
    let mut expect: Vec<String> = Vec::new();
    for para in c.text.split(o.le()) {
        let mut bounds = vec![0];
        bounds.extend(ascii_boundaries(para));
        bounds.push(para.len());
        bounds.dedup();
        // fragments: (start, end of word proper, end incl. whitespace)
        let mut frags: Vec<(usize, usize, usize)> = Vec::new();
        for w in bounds.windows(2) {
            let chunk = &para[w[0]..w[1]];
            let word = chunk.trim_end_matches(' ');
            let mut prev = 0;
            for p in split_points_oracle(o.spl, word) {
                frags.push((w[0] + prev, w[0] + p, w[0] + p));
                prev = p;
            }
            frags.push((w[0] + prev, w[0] + word.len(), w[1]));
        }
        // greedy: start a new line exactly when the line is non-empty and acc + width + penalty > line width
        // (the hyphen splitter's pieces end in '-', so their penalty is empty)
        let mut start = 0usize;
        let mut acc = 0usize;
        let mut runs: Vec<(usize, usize)> = Vec::new();
        for (i, f) in frags.iter().enumerate() {
            let k = expect.len() + runs.len();
            let lw = o.width.saturating_sub(dw(o.indent_of(k)));
            let ww = dw(&para[f.0..f.1]);
            if i > start && acc + ww > lw {
                runs.push((start, i));
                start = i;
                acc = 0;
            }
            acc += ww + (f.2 - f.1);
        }
        runs.push((start, frags.len()));
        for (a, b) in runs {
            let k = expect.len();
            let body = if a == b { "" } else { &para[frags[a].0..frags[b - 1].1] };
            expect.push(format!("{}{}", o.indent_of(k), body));
        }
    }
    let got: Vec<String> = lines.iter().map(|l| l.to_string()).collect();
    if got != expect {
        return Err(format!("first-fit greedy rule gives {:?}, wrap gives {:?}", expect, got));
    }
    Ok(lines.len() >= 2)
}

/// C13: removing colour codes from the wrapped lines == wrapping the stripped text
pub fn c13_ansi(c: &TextCase) -> Outcome {
    let o = &c.opts;
    let stripped = match strip_ansi(&c.text) {
        Some(s) => s,
        None => return Ok(false),
    };
    if stripped == c.text {
        return Ok(false);
    }
    let lines = wrap(&c.text, o.options());
    let plain = wrap(&stripped, o.options());
    let mut got = Vec::new();
    for l in &lines {
        match strip_ansi(l) {
            Some(s) => got.push(s),
            None => return Err(format!("an escape sequence was cut in two: line {:?} of {:?}", l, lines)),
        }
    }
    let want: Vec<String> = plain.iter().map(|l| l.to_string()).collect();
    if got != want {
        return Err(format!("stripped lines of the coloured text {:?} != lines of the stripped text {:?} (coloured lines {:?})", got, want, lines));
    }
    // no sequence dropped
    let seqs_in = ansi_pieces(&c.text).unwrap().iter().filter(|(s, _)| *s).count();
    let seqs_out: usize = lines.iter().map(|l| ansi_pieces(l).unwrap().iter().filter(|(s, _)| *s).count()).sum();
    if seqs_in != seqs_out {
        return Err(format!("{} sequences in, {} out: {:?}", seqs_in, seqs_out, lines));
    }
    Ok(lines.len() >= 2)
}

/// C14: fill is idempotent under the stated conditions
pub fn c14_idempotent(c: &TextCase) -> Outcome {
    let o = &c.opts;
    if !(o.initial.is_empty() && o.subsequent.is_empty()) {
        return Ok(false);
    }
    let once = fill(&c.text, o.options());
    let lines1 = wrap(&c.text, o.options());
    let applies = match (o.algo, o.sep) {
        (Algo::FirstFit, Sep::Ascii) => true,
        (Algo::FirstFit, Sep::Unicode) => {
            // whenever no word needs force-breaking: no line produced by cutting => every line fits or break_words off
            !o.break_words || lines1.iter().all(|l| dw(l) <= o.width) && no_forced_break(&c.text, o)
        }
        (Algo::OptimalFit, _) => lines1.iter().all(|l| dw(l) <= o.width) && (o.sep == Sep::Ascii || !o.break_words || no_forced_break(&c.text, o)),
    };
    if !applies {
        return Ok(false);
    }
    let twice = fill(&once, o.options());
    if once != twice {
        return Err(format!("{}fill(fill(t)) = {:?} differs from fill(t) = {:?}", seq_cut_class(&c.text, o), twice, once));
    }
    Ok(lines1.len() >= 2)
}

/// no word (as found by the separator and splitter) is wider than the width
fn no_forced_break(text: &str, o: &Opts) -> bool {
    let opt = o.options();
    for para in text.split(o.le()) {
        let words = opt.word_separator.find_words(para);
        let split = textwrap::word_splitters::split_words(words, &opt.word_splitter);
        for w in split {
            if w.width > o.width {
                return false;
            }
        }
    }
    true
}

/// C17: fill_inplace
pub fn c17_inplace(c: &StrCase) -> Outcome {
    let orig = c.text.clone();
    let mut s = orig.clone();
    fill_inplace(&mut s, c.n);
    if s.len() != orig.len() {
        return Err(format!("length changed: {:?} -> {:?}", orig, s));
    }
    let mut changed = 0;
    for (i, (x, y)) in orig.bytes().zip(s.bytes()).enumerate() {
        if x != y {
            if !(x == b' ' && y == b'\n') {
                return Err(format!("byte {} changed from {:?} to {:?}: {:?} -> {:?}", i, x as char, y as char, orig, s));
            }
            changed += 1;
        }
    }
    let opts = textwrap::Options::new(c.n)
        .break_words(false)
        .line_ending(textwrap::LineEnding::LF)
        .word_separator(textwrap::WordSeparator::AsciiSpace)
        .wrap_algorithm(textwrap::WrapAlgorithm::FirstFit)
        .word_splitter(textwrap::WordSplitter::NoHyphenation);
    let want: Vec<String> = wrap(&orig, &opts).iter().map(|l| l.to_string()).collect();
    let got: Vec<String> = s.split('\n').map(|l| l.trim_end_matches(' ').to_string()).collect();
    if got != want {
        return Err(format!("fill_inplace gives lines {:?}, wrap with the documented options gives {:?}", got, want));
    }
    Ok(changed >= 1)
}


/// C03 (text level): with optimal-fit and no force-breaking, each paragraph's lines are a minimum-cost arrangement
/// of that paragraph's fragments (separator + splitter output) for the widths the lines are actually rendered with.
#[cfg(all(feature = "full", fuzzing))]
pub fn c03_text(c: &TextCase) -> Outcome {
    use crate::props_frag::{arrangement_cost, Frag, DEFAULT_PEN};
    let o = &c.opts;
    if o.algo != Algo::OptimalFit || o.break_words || c.text.contains('\n') || c.text.contains('\r') || !well_formed(&c.text) {
        return Ok(false);
    }
    let opt = o.options();
    let mut nontrivial = false;
    for prior in [0usize, 1] {
        let mut lines: Vec<Cow<'_, str>> = (0..prior).map(|_| Cow::from("x")).collect();
        textwrap::fuzzing::wrap_single_line_slow_path(&c.text, &opt, &mut lines);
        let out = &lines[prior..];
        let words: Vec<textwrap::core::Word<'_>> =
            textwrap::word_splitters::split_words(opt.word_separator.find_words(&c.text), &opt.word_splitter).collect();
        if words.is_empty() || words.len() > 12 {
            continue;
        }
        let frags: Vec<Frag> = words.iter().map(|w| Frag { w: dw(w.word) as f64, ws: w.whitespace.len() as f64, p: w.penalty.len() as f64 }).collect();
        // side condition of the property
        if (0..frags.len() - 1).any(|t| frags[t].p > frags[t + 1].w) {
            continue;
        }
        let ind0 = if prior == 0 { o.initial } else { o.subsequent };
        let widths = [o.width.saturating_sub(dw(ind0)) as f64, o.width.saturating_sub(dw(o.subsequent)) as f64];
        // recover the arrangement from the output lines
        let mut breaks = Vec::new();
        let mut pos = 0usize;
        for (k, l) in out.iter().enumerate() {
            let ind = if prior + k == 0 { o.initial } else { o.subsequent };
            let rest = match l.strip_prefix(ind) {
                Some(r) => r,
                None => return Err(format!("line {:?} lacks its indent", l)),
            };
            breaks.push(pos);
            let mut acc = String::new();
            let mut found = false;
            for t in pos..words.len() {
                let mut cand = acc.clone();
                cand.push_str(words[t].word);
                cand.push_str(words[t].penalty);
                if cand == rest {
                    pos = t + 1;
                    found = true;
                    break;
                }
                acc.push_str(words[t].word);
                acc.push_str(words[t].whitespace);
            }
            if !found {
                return Err(format!("line {:?} is not a run of the paragraph's fragments {:?}", l, words));
            }
        }
        if pos != words.len() {
            return Err(format!("lines {:?} do not use all fragments {:?}", out, words));
        }
        let got = arrangement_cost(&frags, &widths, &DEFAULT_PEN, &breaks);
        let n = frags.len();
        let mut best = f64::INFINITY;
        let mut bb = vec![];
        for mask in 0u32..(1u32 << (n - 1)) {
            let mut b = vec![0usize];
            for t in 1..n {
                if mask & (1 << (t - 1)) != 0 {
                    b.push(t);
                }
            }
            let cst = arrangement_cost(&frags, &widths, &DEFAULT_PEN, &b);
            if cst < best {
                best = cst;
                bb = b;
            }
        }
        if got != best {
            return Err(format!("with {} earlier line(s): wrap's arrangement {:?} (lines {:?}) costs {} against line widths {:?}, but {:?} costs {}", prior, breaks, out, got, widths, bb, best));
        }
        if breaks.len() >= 2 {
            nontrivial = true;
        }
    }
    Ok(nontrivial)
}
