//! Independent oracles for word boundaries (C11), split points (C12) and fragments.
use crate::common::*;

/// ASCII separator: a word starts exactly where a space is followed by a non-space
pub fn ascii_boundaries(line: &str) -> Vec<usize> {
    let b = line.as_bytes();
    (1..b.len()).filter(|&i| b[i - 1] == b' ' && b[i] != b' ').collect()
}

/// For each UAX #14 break opportunity of the stripped line (the one at the end of text excluded, those
/// directly after '-' or SHY excluded): the set of original positions it may be mapped to — every position
/// whose stripped prefix has that length and that does not lie inside an escape sequence.
#[cfg(feature = "full")]
pub fn unicode_boundary_candidates(line: &str) -> Option<Vec<Vec<usize>>> {
    let pieces = ansi_pieces(line)?;
    let stripped: String = pieces.iter().filter(|(s, _)| !*s).map(|(_, p)| *p).collect();
    // piece boundaries in the original text with their stripped offsets
    let mut cand: std::collections::BTreeMap<usize, Vec<usize>> = Default::default();
    let mut o = 0usize;
    let mut s = 0usize;
    cand.entry(0).or_default().push(0);
    for (is_seq, p) in &pieces {
        o += p.len();
        if !*is_seq {
            s += p.len();
        }
        cand.entry(s).or_default().push(o);
    }
    let mut out = Vec::new();
    for (idx, _) in unicode_linebreak::linebreaks(&stripped) {
        if idx == stripped.len() {
            continue;
        }
        match stripped[..idx].chars().next_back() {
            Some('-') | Some('\u{ad}') => continue,
            _ => {}
        }
        out.push(cand.get(&idx).cloned().unwrap_or_default());
    }
    Some(out)
}

/// hyphen splitter: directly after each '-' that has an alphanumeric character on both sides
pub fn hyphen_split_points(word: &str) -> Vec<usize> {
    let cs: Vec<(usize, char)> = word.char_indices().collect();
    let mut out = Vec::new();
    for k in 0..cs.len() {
        if cs[k].1 == '-' && k > 0 && k + 1 < cs.len() && cs[k - 1].1.is_alphanumeric() && cs[k + 1].1.is_alphanumeric() {
            out.push(cs[k].0 + 1);
        }
    }
    out
}

pub fn split_points_oracle(spl: Spl, word: &str) -> Vec<usize> {
    match spl {
        Spl::None => vec![],
        Spl::Hyphen => hyphen_split_points(word),
        Spl::Every2 => every2(word),
    }
}

/// Break positions (byte offsets into `line`) at which the configured separator and splitter allow a line to
/// be broken without force-breaking: word starts and split points inside words. None if the line is not
/// well-formed for the Unicode oracle.
pub fn soft_break_positions(line: &str, sep: Sep, spl: Spl) -> Option<Vec<usize>> {
    let mut starts: Vec<usize> = match sep {
        Sep::Ascii => ascii_boundaries(line),
        Sep::Unicode => {
            #[cfg(feature = "full")]
            {
                // any admissible mapping: take the first candidate (before the escape sequences)
                unicode_boundary_candidates(line)?.iter().filter_map(|c| c.first().copied()).collect()
            }
            #[cfg(not(feature = "full"))]
            {
                ascii_boundaries(line)
            }
        }
    };
    starts.insert(0, 0);
    starts.push(line.len());
    starts.dedup();
    let mut out = Vec::new();
    for w in starts.windows(2) {
        let (a, b) = (w[0], w[1]);
        if a > 0 {
            out.push(a);
        }
        let chunk = &line[a..b];
        let word = chunk.trim_end_matches(' ');
        for p in split_points_oracle(spl, word) {
            if p > 0 && p < word.len() {
                out.push(a + p);
            }
        }
    }
    out.sort();
    out.dedup();
    Some(out)
}
