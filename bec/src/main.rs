//! bec — bounded exhaustive contract checking of the real textwrap crate.
//!   bec run <Cxx> --tier quick|thorough --seed N --out FILE
//!   bec replay FILE         (re-evaluates the recorded failing case against the real crate)
mod common;
mod harness;
mod props_frag;
mod props_misc;
mod props_words;
mod props_wrap;
mod words;

use common::*;
use harness::*;
use props_frag::*;
use props_misc::*;
use serde_json::{json, Value};

const FLAVOR: &str = if cfg!(feature = "full") { "default-features" } else { "no-default-features" };

// alphabets (symbols may be several characters)
/// incl. a tab: an ASCII control character of width 0 (width 1 without unicode-width), a break opportunity for the Unicode separator only
const A_WRAP: &[&str] = &[" ", "a", "bc", "-", "\n", "é", "你", "d-e", "\t"];
/// broad alphabet: every kind of character the properties quantify over, incl. characters whose UTF-8 encoding ends
/// in 0xAD (中), non-space whitespace (tab, NBSP, U+3000), zero-width and combining characters, CR, and CSI/OSC
/// sequences with final bytes at both ends of the @..~ range
const A_BIG: &[&str] = &[" ", "a", "bc", "-", "\n", "é", "你", "中", "d-e", "\u{ad}", "\u{301}", "\u{200b}", "\u{a0}", "\u{3000}", "\r\n", "\r", "\t", "😂",
    "\x1b[31m", "\x1b[0m", "\x1b[1~", "\x1b[@", "\x1b]8;;x\x1b\\", "\x1b]0;a b\x07", "\x1b]8;;a-b\x1b\\"];
const A_ADVERSARIAL: &[&str] = &[" ", "a", "-", "\n", "\r", "\t", "é", "你", "中", "\u{ad}", "\u{a0}", "\u{3000}", "\u{200b}", "\u{301}", "😂", "\x1b", "[", "]", "m", "~", "\x07", "\\"];
const A_ANSI: &[&str] = &["a", " ", "你", "\u{301}", "\x1b[31m", "\x1b[0m", "\x1b[1~", "\x1b[@", "\x1b[?", "\x1b]8;;x\x1b\\", "\x1b]0;t\x07", "\x1b[", "\x1b", "m", "\\", "[", "\x7f", "?", "]", "\x07"];
const A_WORDS: &[&str] = &[" ", "a", "b", "-", "\t", "\u{a0}", "\u{200b}", "\u{2060}", "你", "中", "😂", "😭", "\u{ad}", "\n", "\x1b[31m", "\x1b[0m", ")", "é", "\u{3000}", "\x1b]8;;x\x1b\\", "\x1b]0;t\x07"];
/// everything at once, for the sampled long-string passes: all whitespace kinds (incl. EM/EN SPACE, which share their UTF-8 lead
/// bytes with each other and with the EM DASH), controls (VT, FF, NEL, DEL, a C1 control), zero-width and combining characters,
/// wide characters, hyphens, prefix characters, well-formed and broken escape sequences
const A_ALL: &[&str] = &[" ", "a", "b", "-", "\n", "\r\n", "\r", "\t", "\u{b}", "\u{c}", "\u{85}", "\u{7f}", "\u{90}", "\u{a0}", "\u{2002}", "\u{2003}", "\u{2014}", "\u{3000}",
    "\u{200b}", "\u{2060}", "\u{ad}", "\u{301}", "\u{3099}", "é", "你", "中", "か", "😂", "1", ")", ">", "*", "#", "/", "_",
    "\x1b[31m", "\x1b[0m", "\x1b[1~", "\x1b[@", "\x1b]8;;x\x1b\\", "\x1b]0;t\x07", "\x1b", "[", "]", "m", "\x07", "\\"];
const A_WORD: &[&str] = &["a", "b", "-", "1", "你", "\u{301}", "é", "\x1b[31m", "\x1b[0m", "\x1b[1~", "😂", "\u{200b}", "\t"];
/// incl. a bare ESC (which swallows the following character, possibly a space, when measured on the whole line) and a CSI sequence
const A_INPLACE: &[&str] = &[" ", "a", "bc", "\n", "é", "你", "\r", "\t", "\x1b", "\x1b[31m"];
const A_DEDENT: &[&str] = &[" ", "\t", "a", "\n", "\r\n", "b", "\u{3000}"];
const A_INDENT: &[&str] = &[" ", "\t", "a", "\n", "\r", "é", "\u{3000}"];
const A_UNFILL: &[&str] = &[" ", "a", "\n", "\r\n", ">", "-", "*", "é", "\r", "/", ".", ","];
/// whole LINES as symbols: a prefix (0-3 prefix characters, changing from line to line) followed by nothing or a body, each with its line break —
/// so that every text of <= 5 such lines is enumerated (a common indent that shrinks at the third line and is compared again at the fourth)
const A_UNFILL_LINES: &[&str] = &["a\n", " \n", "  a\n", "   \n", "   a\n", "  -a\n", " -\n", "> a\n", ">  a\r\n", "  é"];
const A_COLOUR_WORDS: &[&str] = &["ab", "c", "你好", "d-e", "fgh", "-"];
/// lists of line widths for the dispatch contracts: one to four entries, with equal neighbours inside and at the end
const WIDTH_LISTS: &[&str] = &["3", "5,9", "4,4", "2,2,9", "5,5,20", "9,3,3", "3,9,3,9", "2,2,2,7", "", "0,4"];
const VOCAB: &[&str] = &["a", "bb", "ccc", "dddd", "é", "你好", "好", ".x", ",yy"];

fn widths_small() -> Vec<usize> {
    vec![0, 1, 2, 3, 4, 6, 9, usize::MAX]
}

struct Ctx {
    tier_thorough: bool,
    seed: u64,
    reports: Vec<ContractReport>,
}

impl Ctx {
    /// texts over `alphabet` up to `len` symbols x option grid x widths
    fn text_grid<F>(&mut self, name: &str, clause: &str, alphabet: &'static [&'static str], len: u32, grid: Vec<Opts>, widths: Vec<usize>, check: F)
    where
        F: Fn(&TextCase) -> Outcome + Sync,
    {
        let ns = count_strings(alphabet.len() as u64, len);
        let ng = grid.len() as u64;
        let nw = widths.len() as u64;
        let n = ns * ng * nw;
        let scope = format!("[{}] every text of <= {} symbols over {:?} x {} option combinations x widths {:?}", FLAVOR, len, alphabet, ng, widths);
        let r = run_indexed(name, clause, &scope, n, true,
            |i| {
                let si = i / (ng * nw);
                let gi = (i / nw) % ng;
                let wi = i % nw;
                let mut o = grid[gi as usize].clone();
                o.width = widths[wi as usize];
                Some(TextCase { text: nth_string(alphabet, si, len), opts: o })
            },
            check);
        self.reports.push(r);
    }

    /// seeded random longer texts (sampling, not exhaustive)
    fn text_random<F>(&mut self, name: &str, clause: &str, alphabet: &'static [&'static str], maxlen: u64, n: u64, grid: Vec<Opts>, check: F)
    where
        F: Fn(&TextCase) -> Outcome + Sync,
    {
        let seed = self.seed;
        let scope = format!("[{}] {} seeded random texts (seed {}) of <= {} symbols over {:?}, random option combination and width 0..=24", FLAVOR, n, seed, maxlen, alphabet);
        let r = run_indexed(name, clause, &scope, n, false,
            |i| {
                let mut rng = Rng::for_index(seed, i);
                let l = rng.below(maxlen) + 1;
                let mut t = String::new();
                for _ in 0..l {
                    // bias towards letters and spaces
                    let k = if rng.below(3) == 0 { rng.below(alphabet.len() as u64) } else { rng.below(3) };
                    t.push_str(alphabet[k as usize]);
                }
                let mut o = grid[rng.below(grid.len() as u64) as usize].clone();
                o.width = rng.below(25) as usize;
                Some(TextCase { text: t, opts: o })
            },
            check);
        self.reports.push(r);
    }

    /// core alphabet exhaustively + the broad alphabet exhaustively (shorter) + seeded random long texts over the broad alphabet
    #[allow(clippy::too_many_arguments)]
    fn wrap_suite<F>(&mut self, name: &str, clause: &str, alphabet: &'static [&'static str], len: u32, grid: Vec<Opts>, widths: Vec<usize>, big_len: u32, nrandom: u64, check: F)
    where
        F: Fn(&TextCase) -> Outcome + Sync,
    {
        self.text_grid(name, clause, alphabet, len, grid.clone(), widths.clone(), &check);
        // the broad-alphabet and random passes run every (algorithm, separator, splitter, break_words) combination of the grid with
        // EVERY indent pair (multi-byte, zero-width, ANSI-coloured, wider than the width, ...) and with both line endings
        // (the alphabet has "\r\n", a lone "\r" and "\n")
        let mut both: Vec<Opts> = Vec::new();
        let mut seen: Vec<(Algo, Sep, Spl, bool)> = Vec::new();
        for o in grid.iter() {
            let key = (o.algo, o.sep, o.spl, o.break_words);
            if seen.contains(&key) {
                continue;
            }
            seen.push(key);
            for &(i, s2) in INDENT_PAIRS {
                for crlf in [false, true] {
                    let mut o2 = o.clone();
                    o2.initial = i;
                    o2.subsequent = s2;
                    o2.crlf = crlf;
                    both.push(o2);
                }
            }
        }
        self.text_grid(&format!("{}.big_alphabet", name), &format!("{} (broad alphabet, LF and CRLF line ending)", clause), A_BIG, big_len, both.clone(), widths, &check);
        self.text_random(&format!("{}.random", name), &format!("{} (long random texts, sampled, LF and CRLF line ending)", clause), A_BIG, 40, nrandom, both, &check);
    }

    /// seeded random long strings over the all-in-one alphabet (sampling; complements the exhaustive short strings)
    fn strings_random<F>(&mut self, name: &str, clause: &str, no_newlines: bool, maxlen: u64, n: u64, ns_n: Vec<usize>, auxes: Vec<&'static str>, check: F)
    where
        F: Fn(&StrCase) -> Outcome + Sync,
    {
        let seed = self.seed;
        let scope = format!("[{}] {} seeded random strings (seed {}) of <= {} symbols over {:?}{}, n in {:?}, aux in {:?}", FLAVOR, n, seed, maxlen, A_ALL, if no_newlines { " minus line breaks" } else { "" }, ns_n, auxes);
        let r = run_indexed(name, clause, &scope, n, false,
            |i| {
                let mut rng = Rng::for_index(seed, i);
                let l = rng.below(maxlen) + 1;
                let mut t = String::new();
                for _ in 0..l {
                    let k = if rng.below(3) == 0 { rng.below(A_ALL.len() as u64) } else { rng.below(4) };
                    let sym = A_ALL[k as usize];
                    if no_newlines && sym.contains('\n') {
                        continue;
                    }
                    t.push_str(sym);
                }
                Some(StrCase { text: t, n: ns_n[rng.below(ns_n.len() as u64) as usize], aux: auxes[rng.below(auxes.len() as u64) as usize].to_string() })
            },
            check);
        self.reports.push(r);
    }

    fn strings<F>(&mut self, name: &str, clause: &str, alphabet: &'static [&'static str], len: u32, ns_n: Vec<usize>, auxes: Vec<&'static str>, check: F)
    where
        F: Fn(&StrCase) -> Outcome + Sync,
    {
        let ns = count_strings(alphabet.len() as u64, len);
        let nn = ns_n.len() as u64;
        let na = auxes.len() as u64;
        let scope = format!("[{}] every string of <= {} symbols over {:?} x n in {:?} x aux in {:?}", FLAVOR, len, alphabet, ns_n, auxes);
        let r = run_indexed(name, clause, &scope, ns * nn * na, true,
            |i| {
                let si = i / (nn * na);
                let ni = (i / na) % nn;
                let ai = i % na;
                Some(StrCase { text: nth_string(alphabet, si, len), n: ns_n[ni as usize], aux: auxes[ai as usize].to_string() })
            },
            check);
        self.reports.push(r);
    }
}

fn first_fit_only(g: Vec<Opts>) -> Vec<Opts> {
    g.into_iter().filter(|o| o.algo == Algo::FirstFit).collect()
}

fn frag_cases(ctx: &mut Ctx, name: &str, clause: &str, maxn: u32, check: impl Fn(&FragCase) -> Outcome + Sync, optimal_side_condition: bool, pens: Vec<[usize; 5]>) {
    // fragments: (w, ws, p) with w in 0..=3, ws in 0..=1(2), p in {0,1}; line width lists
    let wl: Vec<Vec<f64>> = vec![vec![], vec![0.0], vec![3.0], vec![5.0], vec![4.0, 2.0], vec![2.0, 6.0], vec![1.0, 3.0]];
    let shapes: Vec<(f64, f64, f64)> = {
        let mut v = vec![];
        for w in 0..=3 {
            for ws in 0..=1 {
                for p in 0..=1 {
                    v.push((w as f64, ws as f64, p as f64));
                }
            }
        }
        v
    };
    let k = shapes.len() as u64;
    let ns = count_strings(k, maxn);
    let nw = wl.len() as u64;
    let np = pens.len() as u64;
    let scope = format!("[{}] every fragment sequence of length <= {} with (width, whitespace, penalty) in {{0..3}}x{{0,1}}x{{0,1}}{} x line-width lists {:?} x {} penalty settings",
        FLAVOR, maxn, if optimal_side_condition { " (penalty <= width of the next fragment)" } else { "" }, wl, np);
    let r = run_indexed(name, clause, &scope, ns * nw * np, true,
        |i| {
            let si = i / (nw * np);
            let wi = (i / np) % nw;
            let pi = i % np;
            // decode fragment sequence
            let mut idx = si;
            let mut len = 0u32;
            loop {
                let c = k.pow(len);
                if idx < c || len == maxn {
                    break;
                }
                idx -= c;
                len += 1;
            }
            let mut frags = Vec::new();
            for _ in 0..len {
                let s = shapes[(idx % k) as usize];
                idx /= k;
                frags.push(Frag { w: s.0, ws: s.1, p: s.2 });
            }
            if optimal_side_condition {
                for t in 0..frags.len() {
                    let next_w = if t + 1 < frags.len() { frags[t + 1].w } else { f64::INFINITY };
                    if frags[t].p > next_w {
                        return None;
                    }
                }
            }
            Some(FragCase { frags, widths: wl[wi as usize].clone(), pen: pens[pi as usize] })
        },
        check);
    ctx.reports.push(r);
}

fn frag_random(ctx: &mut Ctx, name: &str, clause: &str, n: u64, maxlen: u64, weird: bool, check: impl Fn(&FragCase) -> Outcome + Sync, side: bool) {
    let seed = ctx.seed;
    let scope = format!("[{}] {} seeded random fragment sequences (seed {}) of length <= {}, {} widths, 0-2 line widths, random penalties", FLAVOR, n, seed, maxlen,
        if weird { "arbitrary finite f64 (negative, fractional, huge)" } else { "small integer" });
    let r = run_indexed(name, clause, &scope, n, false,
        |i| {
            let mut rng = Rng::for_index(seed, i);
            let len = rng.below(maxlen + 1);
            let mut val = |rng: &mut Rng, hi: u64| -> f64 {
                if weird {
                    match rng.below(6) {
                        0 => -(rng.below(5) as f64),
                        1 => rng.below(100) as f64 / 7.0,
                        2 => 1e300 * (rng.below(9) as f64),
                        3 => 0.0,
                        _ => rng.below(hi) as f64,
                    }
                } else {
                    rng.below(hi) as f64
                }
            };
            let mut frags: Vec<Frag> = (0..len).map(|_| Frag { w: val(&mut rng, 9), ws: val(&mut rng, 3), p: val(&mut rng, 2) }).collect();
            if side {
                for t in 0..frags.len() {
                    let next_w = if t + 1 < frags.len() { frags[t + 1].w } else { f64::INFINITY };
                    if frags[t].p > next_w {
                        frags[t].p = 0.0;
                    }
                }
            }
            let nw = rng.below(3);
            let widths: Vec<f64> = (0..nw).map(|_| val(&mut rng, 20)).collect();
            let pen = if rng.below(2) == 0 { DEFAULT_PEN } else { [rng.below(2000) as usize, rng.below(3000) as usize, 1 + rng.below(6) as usize, rng.below(50) as usize, rng.below(50) as usize] };
            Some(FragCase { frags, widths, pen })
        },
        check);
    ctx.reports.push(r);
}

/// paragraphs of 6..8 words (many lines at narrow widths; widest line first / last / in the middle; wide characters)
const LONG_PARAGRAPHS: &[&[&str]] = &[
    &["a", "bb", "ccc", "dddd", "eeeee", "ffffff"],
    &["ffffff", "eeeee", "dddd", "ccc", "bb", "a"],
    &["a", "bb", "a", "bb", "ccc", "a", "dddd", "a"],
    &["你好", "a", "bb", "好", "ccc", "dddd", "é", "你好你好"],
    &["aa", "aa", "aa", "aa", "aa", "aa", "aa", "aa"],
    &["a", "a", "a", "a", "a", "a", "bbbbbbb"],
];

fn refill_cases(ctx: &mut Ctx, name: &str, clause: &str, maxwords: u32, check: impl Fn(&RefillCase) -> Outcome + Sync) {
    refill_cases_from(ctx, name, clause, maxwords, false, &check);
    refill_cases_from(ctx, &format!("{}.long", name), &format!("{} (paragraphs of 6..8 words)", clause), 0, true, &check);
}

fn refill_cases_from(ctx: &mut Ctx, name: &str, clause: &str, maxwords: u32, long: bool, check: &(impl Fn(&RefillCase) -> Outcome + Sync)) {
    let indents: &[(&'static str, &'static str)] = &[("", ""), ("> ", "> "), ("* ", "  "), ("- ", "    "), ("#", ""), ("+ ", "+ "), ("// ", "/+*#"), (" ", "> - ")];
    let widths = [1usize, 3, 5, 8, 12];
    let ns = if long { LONG_PARAGRAPHS.len() as u64 } else { count_strings(VOCAB.len() as u64, maxwords) - 1 };
    let n = ns * indents.len() as u64 * 25 * 2 * 2 * 2 * 2 * (if cfg!(feature = "full") { 2 } else { 1 });
    let scope = format!("[{}] {} x indent pairs {:?} x widths {:?} (both) x algorithms x break_words off / on-without-forced-breaks x LF/CRLF (both) x trailing ending", FLAVOR, if long { format!("the paragraphs {:?}", LONG_PARAGRAPHS) } else { format!("every paragraph of 1..={} words from {:?}", maxwords, VOCAB) }, indents, widths);
    let r = run_indexed(name, clause, &scope, n, true,
        |mut i| {
            let na = if cfg!(feature = "full") { 2 } else { 1 };
            let algo = if i % na == 1 { Algo::OptimalFit } else { Algo::FirstFit };
            i /= na;
            let bw = i % 2 == 1;
            i /= 2;
            let trailing = i % 2 == 1;
            i /= 2;
            let crlf2 = i % 2 == 1;
            i /= 2;
            let crlf = i % 2 == 1;
            i /= 2;
            let w2 = widths[(i % 5) as usize];
            i /= 5;
            let w1 = widths[(i % 5) as usize];
            i /= 5;
            let ind = indents[(i % indents.len() as u64) as usize];
            i /= indents.len() as u64;
            // word sequence i+1 (skip the empty sequence)
            let mut idx = i + 1;
            let k = VOCAB.len() as u64;
            let mut len = 0u32;
            loop {
                let c = k.pow(len);
                if idx < c {
                    break;
                }
                idx -= c;
                len += 1;
            }
            let mut words = Vec::new();
            for _ in 0..len {
                words.push(VOCAB[(idx % k) as usize]);
                idx /= k;
            }
            if long {
                words = LONG_PARAGRAPHS[(i % LONG_PARAGRAPHS.len() as u64) as usize].to_vec();
            }
            let o = Opts { width: w1, algo, sep: Sep::Ascii, spl: Spl::None, break_words: bw, initial: ind.0, subsequent: ind.1, crlf };
            if bw {
                // "breaks at spaces only": with break_words on, keep the cases in which no word is force-broken (at either width)
                let lim = std::cmp::min(w1, w2).saturating_sub(dw(ind.1));
                if words.iter().any(|w| dw(w) > lim) {
                    return None;
                }
            }
            Some(RefillCase { words, opts: o, width2: w2, crlf2, trailing })
        },
        check);
    ctx.reports.push(r);
}

fn col_cases(ctx: &mut Ctx, maxlen: u32) {
    // incl. an all-ASCII cell with an escape sequence / a zero-width control character (width != byte length, yet is_ascii()),
    // and the opener of an OSC sequence that is never terminated (it swallows whatever follows it in the row)
    const A: &[&str] = &[" ", "a", "bcd", "你", "\n", "\x1b[1m", "\t", "\u{301}", "\x1b]0;"];
    let gaps: &[(&'static str, &'static str, &'static str)] = &[("", "", ""), ("| ", " | ", " |"), ("你", "你", ""), ("", "  ", "x")];
    let ns = count_strings(A.len() as u64, maxlen);
    let widths = [0usize, 1, 2, 5, 9, 14, 23];
    let n = ns * 4 * widths.len() as u64 * gaps.len() as u64 * 2;
    let scope = format!("[{}] every text of <= {} symbols over {:?} x columns 1..=4 x total widths {:?} x gaps {:?} x break_words", FLAVOR, maxlen, A, widths, gaps);
    let r = run_indexed("C20.wrap_columns.layout", "rows = left ++ cells (column-major, padded) ++ gaps ++ right; equal row widths when nothing protrudes; never fails", &scope, n, true,
        |mut i| {
            let bw = i % 2 == 1;
            i /= 2;
            let g = gaps[(i % gaps.len() as u64) as usize];
            i /= gaps.len() as u64;
            let w = widths[(i % widths.len() as u64) as usize];
            i /= widths.len() as u64;
            let cols = 1 + (i % 4) as usize;
            i /= 4;
            Some(ColCase { text: nth_string(A, i, maxlen), columns: cols, width: w, left: g.0, mid: g.1, right: g.2, break_words: bw })
        },
        c20_columns);
    ctx.reports.push(r);
}

fn colour_cases(ctx: &mut Ctx, maxwords: u32) {
    // plain texts: words joined by single spaces; colourings: each word optionally wrapped in SGR / hyperlink
    let k = A_COLOUR_WORDS.len() as u64;
    let ns = count_strings(k, maxwords) - 1;
    let widths = [1usize, 2, 3, 4, 6, 9];
    let grid: Vec<Opts> = {
        let mut v = vec![];
        for algo in algos() {
            for sep in seps() {
                for spl in [Spl::None] {
                    for bw in [true, false] {
                        v.push(Opts { width: 0, algo, sep, spl, break_words: bw, initial: "", subsequent: "", crlf: false });
                    }
                }
            }
        }
        v
    };
    let ng = grid.len() as u64;
    // words are joined by one of JOINERS and the text may end in one of SUFFIXES (whitespace that only the byte-length
    // shortcut or the slow path would trim differently: the escape bytes decide which of the two paths runs)
    const JOINERS: &[&str] = &[" ", "  ", "\n"];
    const SUFFIXES: &[&str] = &["", " ", "\t", "\r", "\u{3000}"];
    let nj = JOINERS.len() as u64;
    let nx = SUFFIXES.len() as u64;
    let n = ns * 3u64.pow(maxwords) * widths.len() as u64 * ng * nj * nx;
    let scope = format!("[{}] every sentence of 1..={} words from {:?}, each word plain / SGR-coloured / hyperlinked (sequences touch the word), joined by one of {:?}, ending in one of {:?}, widths {:?}, {} option combinations (no hyphen splitter)", FLAVOR, maxwords, A_COLOUR_WORDS, JOINERS, SUFFIXES, widths, ng);
    let r = run_indexed("C13.wrap.ansi_transparent", "strip(wrap(coloured)) == wrap(strip(coloured)); no sequence cut or dropped", &scope, n, true,
        |mut i| {
            let gi = i % ng;
            i /= ng;
            let joiner = JOINERS[(i % nj) as usize];
            i /= nj;
            let suffix = SUFFIXES[(i % nx) as usize];
            i /= nx;
            let w = widths[(i % widths.len() as u64) as usize];
            i /= widths.len() as u64;
            let mut col = i % 3u64.pow(maxwords);
            i /= 3u64.pow(maxwords);
            let mut idx = i + 1;
            let mut len = 0u32;
            loop {
                let c = k.pow(len);
                if idx < c {
                    break;
                }
                idx -= c;
                len += 1;
            }
            let mut parts = Vec::new();
            for _ in 0..len {
                let wd = A_COLOUR_WORDS[(idx % k) as usize];
                idx /= k;
                let style = col % 3;
                col /= 3;
                parts.push(match style {
                    0 => wd.to_string(),
                    1 => format!("\x1b[31m{}\x1b[0m", wd),
                    // hyperlink whose URI holds a backslash that is NOT the terminator (a Windows path): only ESC \\ or BEL end an OSC sequence
                    _ => format!("\x1b]8;;file://C:\\t\x1b\\{}\x1b]8;;\x1b\\", wd),
                });
            }
            if col != 0 {
                return None; // styles beyond the sentence length: duplicate case
            }
            let mut o = grid[gi as usize].clone();
            o.width = w;
            Some(TextCase { text: format!("{}{}", parts.join(joiner), suffix), opts: o })
        },
        props_wrap::c13_ansi);
    ctx.reports.push(r);
}

fn run_property(prop: &str, ctx: &mut Ctx) {
    let th = ctx.tier_thorough;
    let l = |q: u32, t: u32| if th { t } else { q };
    match prop {
        "C01" => {
            ctx.wrap_suite("C01.wrap.slices", "every line = indent ++ in-order slice (++ inserted hyphen); only spaces / line endings skipped; borrowed when possible; no trailing space; fill = lines joined",
                A_WRAP, l(4, 5), option_grid(true), widths_small(), l(2, 3), if th { 10_000_000 } else { 60_000 }, props_wrap::c01_slices);
        }
        "C02" => {
            ctx.wrap_suite("C02.wrap.first_fit_fits", "first-fit: line width <= width unless the part after the indent is one unbreakable fragment",
                A_WRAP, l(4, 5), first_fit_only(option_grid(true)).into_iter().filter(|o| o.spl != Spl::Every2).collect(), vec![0, 1, 2, 3, 4, 5, 6, 8], l(2, 3), if th { 10_000_000 } else { 60_000 }, props_wrap::c02_fits);
        }
        "C03" => {
            #[cfg(feature = "full")]
            {
                let pens = vec![DEFAULT_PEN, [0, 1, 1, 0, 0], [3, 2, 2, 7, 5], [1000, 0, 4, 25, 0]];
                frag_cases(ctx, "C03.optimal_fit.minimal_cost", "cost(returned) == min over all 2^(n-1) arrangements (documented cost model, exact integers) and <= cost(first-fit)",
                    l(4, 5), c03_optimal, true, pens);
                ctx.strings("C03.dispatch.optimal_fit", "WrapAlgorithm::OptimalFit(default).wrap(words, widths) == wrap_optimal_fit(words, widths as f64, default penalties)",
                    &["a ", "bb ", "ccc ", "dddd ", "e"], l(6, 7), vec![1], WIDTH_LISTS.to_vec(), props_frag::dispatch_same);
                frag_cases(ctx, "A6.smawk.call_shape", "assumed contract A6 of smawk::online_column_minima (call arguments and returned table shape)", l(4, 5), a6_smawk_shape, false, vec![DEFAULT_PEN]);
                frag_random(ctx, "A6.smawk.call_shape.random", "same, longer random sequences", if th { 10_000_000 } else { 40_000 }, 40, true, a6_smawk_shape, false);
                frag_random(ctx, "C03.optimal_fit.minimal_cost.random", "same, random sequences", if th { 10_000_000 } else { 40_000 }, if th { 14 } else { 10 }, false, c03_optimal, true);
                let grid: Vec<Opts> = option_grid(true).into_iter().filter(|o| o.algo == Algo::OptimalFit && !o.break_words).collect();
                ctx.text_grid("C03.wrap.minimal_cost_text", "optimal-fit, no force-breaking: each paragraph's lines are a minimum-cost arrangement of its fragments for the widths actually rendered",
                    &[" ", "a", "bc", "def", "é", "你", "g-h", "\x1b[31m"], l(4, 5), grid.clone(), vec![2, 3, 4, 5, 6, 8, 11], props_wrap::c03_text);
                ctx.text_random("C03.wrap.minimal_cost_text.random", "same, longer random texts", &[" ", "a", "bc", "def", "é", "你", "g-h", "中文", "ijkl"], 16, if th { 5_000_000 } else { 40_000 }, grid, props_wrap::c03_text);
            }
        }
        "C04" => {
            let mut grid = option_grid(true);
            grid.truncate(if th { 1000 } else { 1000 });
            ctx.text_grid("C04.total.public_api", "wrap, fill, fill_inplace, unfill, refill, indent, dedent, wrap_columns, display_width, find_words, split_words, break_words and both algorithms return (no panic, no hang, no overflow error)",
                A_ADVERSARIAL, l(2, 3), grid.clone(), vec![0, 1, 2, 7, usize::MAX], c04_total);
            ctx.strings("A4.std_models", "the std behaviour the Verus side-cars assume of their transparent wrappers (lines, split with positions, split over a concatenation, split_terminator, trim*, find, match_indices, char_indices, classifiers)",
                &[" ", "a", "\n", "\r", "-", "é", "\t", "\u{3000}"], l(6, 7), vec![0], vec![""], a4_std_models);
            ctx.strings_random("A4.std_models.random", "same (long random strings, sampled)", false, 30, if th { 5_000_000 } else { 40_000 }, vec![0], vec![""], a4_std_models);
            ctx.text_random("C04.total.public_api.random", "same, long random texts", A_ADVERSARIAL, 30, if th { 10_000_000 } else { 60_000 }, grid, c04_total);
            frag_random(ctx, "C04.total.fragments", "both algorithms return for arbitrary finite f64 fragments", if th { 10_000_000 } else { 60_000 }, 12, true, |c| {
                let _ = textwrap::wrap_algorithms::wrap_first_fit(&c.frags, &c.widths);
                #[cfg(feature = "full")]
                let _ = textwrap::wrap_algorithms::wrap_optimal_fit(&c.frags, &c.widths, &c.penalties());
                Ok(c.frags.len() >= 2)
            }, false);
        }
        "C05" => {
            ctx.wrap_suite("C05.wrap.shortcut", "fast path == slow path for wrap_single_line and fill; a paragraph that fits is returned as one line",
                &[" ", "a", "bc", "é", "你", "\x1b[31m", "\n", "-", "\t"], l(4, 5), option_grid(false), vec![0, 1, 2, 3, 4, 5, 6, 7, 8, 10, 12, 16], l(2, 3), if th { 10_000_000 } else { 60_000 }, props_wrap::c05_shortcut);
        }
        "C06" => {
            frag_cases(ctx, "C06.first_fit.partition", "lines are non-empty contiguous runs concatenating to the input; empty input -> one empty line", l(4, 6), c06_first_fit, false, vec![DEFAULT_PEN]);
            frag_random(ctx, "C06.first_fit.partition.random", "same, arbitrary finite f64", if th { 15_000_000 } else { 60_000 }, 16, true, c06_first_fit, false);
            #[cfg(feature = "full")]
            {
                frag_cases(ctx, "A6.smawk.call_shape", "assumed contract A6 of smawk::online_column_minima (call arguments and returned table shape)", l(4, 5), a6_smawk_shape, false, vec![DEFAULT_PEN]);
                frag_cases(ctx, "C06.optimal_fit.partition", "same for optimal-fit", l(4, 6), c06_optimal_fit, false, vec![DEFAULT_PEN, [0, 0, 1, 0, 0]]);
                frag_random(ctx, "C06.optimal_fit.partition.random", "same, arbitrary finite f64", if th { 15_000_000 } else { 60_000 }, 16, true, c06_optimal_fit, false);
            }
        }
        "C07" => {
            frag_cases(ctx, "C07.first_fit.greedy", "a new line starts exactly when the line is non-empty and acc + width + penalty > line width", l(4, 6), c07_greedy, false, vec![DEFAULT_PEN]);
            frag_random(ctx, "C07.first_fit.greedy.random", "same, arbitrary finite f64", if th { 15_000_000 } else { 60_000 }, 16, true, c07_greedy, false);
            ctx.strings("C07.dispatch.first_fit", "WrapAlgorithm::FirstFit.wrap(words, widths) == wrap_first_fit(words, widths as f64): every listed width reaches the algorithm, in order",
                &["a ", "bb ", "ccc ", "dddd ", "e"], l(6, 7), vec![0], WIDTH_LISTS.to_vec(), props_frag::dispatch_same);
            ctx.wrap_suite("C07.wrap.greedy_text", "ASCII separator, hyphen or no splitter, no force-breaking: wrap == the greedy rule applied to the space-delimited words cut at the splitter's split points",
                A_WRAP, l(4, 5), first_fit_only(option_grid(true)).into_iter().filter(|o| o.sep == Sep::Ascii && o.spl != Spl::Every2 && !o.break_words).collect(), vec![0, 1, 2, 3, 4, 5, 6, 8], l(3, 3), if th { 10_000_000 } else { 60_000 }, props_wrap::c07_text);
        }
        "C08" => {
            ctx.wrap_suite("C08.wrap.indent", "line 0 starts with initial_indent, later lines with subsequent_indent; remainder depends only on the indents' widths",
                A_WRAP, l(4, 5), option_grid(true), widths_small(), l(2, 3), if th { 10_000_000 } else { 60_000 }, props_wrap::c08_indent);
        }
        "C09" => {
            ctx.wrap_suite("C09.wrap.paragraphs", "wrap(a+E+b) begins with wrap(a); the rest does not depend on a; fill = join; LF<->CRLF equivariance",
                &[" ", "a", "bc", "\n", "é", "-", "\t"], l(5, 6), option_grid(false), vec![0, 1, 2, 3, 5, 8], l(2, 3), if th { 10_000_000 } else { 60_000 }, props_wrap::c09_paragraphs);
            let mut g = option_grid(false);
            for o in g.iter_mut() {
                o.crlf = true;
            }
            ctx.text_grid("C09.wrap.paragraphs.crlf", "same with the CRLF line ending", &[" ", "a", "\r\n", "\n", "bc", "\t", "\r"], l(5, 6), g, vec![0, 1, 2, 3, 5], props_wrap::c09_paragraphs);
            // the std facts U11's C09 theorem rests on (split positions; split over a concatenation), on the real str::split
            ctx.strings("A4.std_models", "the std behaviour the Verus side-cars assume of their transparent wrappers (lines, split with positions, split over a concatenation, split_terminator, trim*, find, match_indices, char_indices, classifiers)",
                &[" ", "a", "\n", "\r", "-", "é", "\t", "\u{3000}"], l(5, 6), vec![0], vec![""], a4_std_models);
        }
        "C10" => {
            let scope = format!("[{}] every Unicode scalar value (0x110000 code points in blocks of 256, surrogates skipped)", FLAVOR);
            let r = run_indexed("C10.display_width.scalar", "display_width(c) == table width; <= byte length", &scope, 0x110000 / 256, true,
                |i| Some(StrCase { text: String::new(), n: (i * 256) as usize, aux: String::new() }), props_words::c10_scalar);
            ctx.reports.push(r);
            ctx.strings("C10.display_width.strings", "== sum of widths outside CSI/OSC sequences (well-formed texts); additive; invariant under inserting sequences; <= byte length (all texts)",
                A_ANSI, l(4, 6), vec![0], vec![""], props_words::c10_strings);
            ctx.strings_random("C10.display_width.strings.random", "same (long random strings, sampled)", false, 30, if th { 5_000_000 } else { 40_000 }, vec![0], vec![""], props_words::c10_strings);
        }
        "C11" => {
            ctx.strings("C11.find_words.ascii", "lossless; whitespace is spaces; no trailing space in words; width cached; boundaries = space followed by non-space",
                A_WORDS, l(4, 6), vec![0], vec![""], props_words::c11_ascii);
            ctx.strings_random("C11.find_words.ascii.random", "same (long random lines, sampled)", true, 30, if th { 5_000_000 } else { 40_000 }, vec![0], vec![""], props_words::c11_ascii);
            #[cfg(feature = "full")]
            ctx.strings("C11.find_words.unicode", "lossless ...; boundaries = UAX#14 opportunities of the stripped line minus those after '-'/SHY, none inside a sequence",
                A_WORDS, l(4, 5), vec![0], vec![""], props_words::c11_unicode);
            #[cfg(feature = "full")]
            ctx.strings_random("C11.find_words.unicode.random", "same (long random lines, sampled)", true, 30, if th { 5_000_000 } else { 40_000 }, vec![0], vec![""], props_words::c11_unicode);
            #[cfg(feature = "full")]
            ctx.strings("A13.linebreaks.shape", "unicode_linebreak::linebreaks(s): strictly increasing char boundaries in 1..=len (the shape unit U20 assumes)",
                A_WORDS, l(4, 5), vec![0], vec![""], props_words::a13_linebreaks_shape);
        }
        "C12" => {
            ctx.strings("C12.split_words", "pieces concatenate; cut exactly at the split points; hyphen penalty exactly when needed; whitespace/penalty on the last piece",
                &["a", "b", "-", "1", "你", "é", " ", "_"], l(5, 7), vec![0, 1], vec!["None", "Hyphen", "Every2"], props_words::c12_split);
            ctx.strings("C12.break_apart", "pieces concatenate, non-empty, <= limit unless a single wide char, maximal, never inside a sequence, widths cached; pass-through",
                A_WORD, l(4, 6), vec![0, 1, 2, 3, 5], vec!["", "pen"], props_words::c12_break);
            ctx.strings_random("C12.break_apart.random", "same (long random words, sampled)", true, 20, if th { 5_000_000 } else { 40_000 }, vec![0, 1, 2, 3, 5, 8], vec!["", "pen"], props_words::c12_break);
            ctx.strings_random("C12.split_words.random", "same (long random words, sampled)", true, 20, if th { 5_000_000 } else { 40_000 }, vec![0, 1], vec!["None", "Hyphen", "Every2"], props_words::c12_split);
        }
        "C13" => {
            colour_cases(ctx, l(3, 4));
        }
        "C14" => {
            let grid: Vec<Opts> = option_grid(false).into_iter().filter(|o| o.initial.is_empty() && o.subsequent.is_empty()).collect();
            ctx.wrap_suite("C14.fill.idempotent", "fill(fill(t)) == fill(t) under the stated conditions", A_WRAP, l(4, 6), grid, vec![1, 2, 3, 4, 5, 6, 8, 12], l(2, 3), if th { 10_000_000 } else { 60_000 }, props_wrap::c14_idempotent);
        }
        "C15" => {
            ctx.strings("C15.unfill.structural", "indents are prefixes made of prefix characters; no interior line break; line-ending detection", A_UNFILL, l(5, 7), vec![0], vec![""], c15_structural);
            ctx.strings("C15.unfill.structural.lines", "same, every text of up to five (thorough: six) whole lines whose prefixes change from line to line", A_UNFILL_LINES, l(5, 6), vec![0], vec![""], c15_structural);
            ctx.strings_random("C15.unfill.structural.random", "same (long random texts, sampled)", false, 30, if th { 5_000_000 } else { 40_000 }, vec![0], vec![""], c15_structural);
            refill_cases(ctx, "C15.unfill.roundtrip", "unfill(fill(paragraph)) recovers text, indents, width and line ending", l(3, 5), c15_roundtrip);
        }
        "C16" => {
            refill_cases(ctx, "C16.refill", "refill(fill(t, o1), o2) == fill(t, o2 with o1's indents)", l(3, 5), c16_refill);
        }
        "C17" => {
            ctx.strings("C17.fill_inplace", "same length; only ' ' -> '\\n'; lines == wrap with the documented options", A_INPLACE, l(5, 6), vec![0, 1, 2, 3, 4, 6, 9], vec![""], props_wrap::c17_inplace);
            ctx.strings_random("C17.fill_inplace.random", "same (long random texts, sampled)", false, 30, if th { 5_000_000 } else { 40_000 }, vec![0, 1, 2, 3, 4, 6, 9, 14], vec![""], props_wrap::c17_inplace);
        }
        "C18" => {
            ctx.strings("C18.dedent", "removes exactly the longest common whitespace margin; idempotent; dedent(indent(s,p)) == dedent(s)", A_DEDENT, l(7, 9), vec![0], vec![""], c18_dedent);
            ctx.strings_random("C18.dedent.random", "same (long random texts, sampled)", false, 30, if th { 5_000_000 } else { 40_000 }, vec![0], vec![""], c18_dedent);
            // the std fact U9's corollary theorems rest on (axiom lines_model: str::lines == lines_c), on the real str::lines
            ctx.strings("A4.std_models", "the std behaviour the Verus side-cars assume of their transparent wrappers (lines, lines == split_terminator without CR, split with positions, split_terminator, trim*, ...)",
                &[" ", "a", "\n", "\r", "-", "é", "\t", "\u{3000}"], l(5, 6), vec![0], vec![""], a4_std_models);
        }
        "C19" => {
            ctx.strings("C19.indent", "every line prefixed (trimmed prefix on blank lines); newline structure kept; indent(s,\"\") == s", A_INDENT, l(6, 8), vec![0], vec!["", "  ", "> ", "\t", "// "], c19_indent);
            ctx.strings_random("C19.indent.random", "same (long random texts, sampled)", false, 30, if th { 5_000_000 } else { 40_000 }, vec![0], vec!["", "  ", "> ", "\t", "// ", "\u{3000}x "], c19_indent);
        }
        "C20" => {
            col_cases(ctx, l(4, 6));
        }
        _ => {}
    }
}

fn replay(path: &str) -> i32 {
    let v: Value = serde_json::from_str(&std::fs::read_to_string(path).expect("read replay file")).expect("json");
    let contract = v["contract"].as_str().unwrap_or("");
    let case = &v["case"];
    let flavor = v["flavor"].as_str().unwrap_or(FLAVOR);
    if flavor != FLAVOR {
        println!("replay: case was found with the {} build; this is the {} build", flavor, FLAVOR);
        return 4;
    }
    let r = std::panic::catch_unwind(|| -> Outcome {
        let base = contract.split(".random").next().unwrap_or(contract).trim_end_matches(".lines").trim_end_matches(".big_alphabet").trim_end_matches(".crlf").trim_end_matches(".long");
        match base {
            "C01.wrap.slices" => props_wrap::c01_slices(&TextCase::from_json(case)),
            "C02.wrap.first_fit_fits" => props_wrap::c02_fits(&TextCase::from_json(case)),
            #[cfg(feature = "full")]
            "C03.optimal_fit.minimal_cost" => c03_optimal(&FragCase::from_json(case)),
            #[cfg(feature = "full")]
            "A6.smawk.call_shape" => a6_smawk_shape(&FragCase::from_json(case)),
            #[cfg(all(feature = "full", fuzzing))]
            "C03.wrap.minimal_cost_text" => props_wrap::c03_text(&TextCase::from_json(case)),
            "C04.total.public_api" => c04_total(&TextCase::from_json(case)),
            "C04.total.fragments" => {
                let c = FragCase::from_json(case);
                let _ = textwrap::wrap_algorithms::wrap_first_fit(&c.frags, &c.widths);
                #[cfg(feature = "full")]
                let _ = textwrap::wrap_algorithms::wrap_optimal_fit(&c.frags, &c.widths, &c.penalties());
                Ok(true)
            }
            "C05.wrap.shortcut" => props_wrap::c05_shortcut(&TextCase::from_json(case)),
            "C06.first_fit.partition" => c06_first_fit(&FragCase::from_json(case)),
            #[cfg(feature = "full")]
            "C06.optimal_fit.partition" => c06_optimal_fit(&FragCase::from_json(case)),
            "C07.first_fit.greedy" => c07_greedy(&FragCase::from_json(case)),
            "C07.wrap.greedy_text" => props_wrap::c07_text(&TextCase::from_json(case)),
            "C08.wrap.indent" => props_wrap::c08_indent(&TextCase::from_json(case)),
            "C09.wrap.paragraphs" => props_wrap::c09_paragraphs(&TextCase::from_json(case)),
            "C10.display_width.scalar" => props_words::c10_scalar(&StrCase::from_json(case)),
            "C10.display_width.strings" => props_words::c10_strings(&StrCase::from_json(case)),
            "C11.find_words.ascii" => props_words::c11_ascii(&StrCase::from_json(case)),
            #[cfg(feature = "full")]
            "C11.find_words.unicode" => props_words::c11_unicode(&StrCase::from_json(case)),
            #[cfg(feature = "full")]
            "A13.linebreaks.shape" => props_words::a13_linebreaks_shape(&StrCase::from_json(case)),
            "C07.dispatch.first_fit" | "C03.dispatch.optimal_fit" => props_frag::dispatch_same(&StrCase::from_json(case)),
            "A4.std_models" => a4_std_models(&StrCase::from_json(case)),
            "C12.split_words" => props_words::c12_split(&StrCase::from_json(case)),
            "C12.break_apart" => props_words::c12_break(&StrCase::from_json(case)),
            "C13.wrap.ansi_transparent" => props_wrap::c13_ansi(&TextCase::from_json(case)),
            "C14.fill.idempotent" => props_wrap::c14_idempotent(&TextCase::from_json(case)),
            "C15.unfill.structural" => c15_structural(&StrCase::from_json(case)),
            "C15.unfill.roundtrip" => c15_roundtrip(&RefillCase::from_json(case)),
            "C16.refill" => c16_refill(&RefillCase::from_json(case)),
            "C17.fill_inplace" => props_wrap::c17_inplace(&StrCase::from_json(case)),
            "C18.dedent" => c18_dedent(&StrCase::from_json(case)),
            "C19.indent" => c19_indent(&StrCase::from_json(case)),
            "C20.wrap_columns.layout" => c20_columns(&ColCase::from_json(case)),
            other => Err(format!("unknown contract {}", other)),
        }
    });
    match r {
        Ok(Ok(_)) => {
            println!("replay: contract {} HOLDS on the recorded case (not reproduced)", contract);
            0
        }
        Ok(Err(m)) => {
            println!("replay: contract {} VIOLATED on the real crate: {}", contract, m);
            1
        }
        Err(_) => {
            println!("replay: contract {} VIOLATED on the real crate: PANIC", contract);
            1
        }
    }
}

fn main() {
    // panics are part of what we look for: keep the default hook quiet
    std::panic::set_hook(Box::new(|_| {}));
    let args: Vec<String> = std::env::args().collect();
    if args.len() >= 3 && args[1] == "replay" {
        std::process::exit(replay(&args[2]));
    }
    if args.len() < 3 || args[1] != "run" {
        eprintln!("usage: bec run <Cxx> [--tier quick|thorough] [--seed N] [--out FILE] | bec replay FILE");
        std::process::exit(2);
    }
    let prop = args[2].clone();
    let mut tier = "quick".to_string();
    let mut seed = 1u64;
    let mut out = None;
    let mut i = 3;
    while i < args.len() {
        match args[i].as_str() {
            "--tier" => {
                tier = args[i + 1].clone();
                i += 1;
            }
            "--seed" => {
                seed = args[i + 1].parse().unwrap_or(1);
                i += 1;
            }
            "--out" => {
                out = Some(args[i + 1].clone());
                i += 1;
            }
            _ => {}
        }
        i += 1;
    }
    let t0 = std::time::Instant::now();
    let mut ctx = Ctx { tier_thorough: tier == "thorough", seed, reports: vec![] };
    run_property(&prop, &mut ctx);
    let nfail: usize = ctx.reports.iter().map(|r| r.failures.len()).sum();
    let v = json!({
        "property": prop, "tier": tier, "seed": seed, "flavor": FLAVOR,
        "contracts": ctx.reports.iter().map(|r| r.to_json()).collect::<Vec<_>>(),
        "failures": nfail, "wall_s": t0.elapsed().as_secs_f64(),
    });
    let s = serde_json::to_string_pretty(&v).unwrap();
    match out {
        Some(p) => std::fs::write(p, s).unwrap(),
        None => println!("{}", s),
    }
    std::process::exit(if nfail > 0 { 1 } else { 0 });
}
