//! Option grids, case types and oracles that are independent of textwrap's code.
use crate::harness::CaseJson;
use serde_json::{json, Value};
use textwrap::{LineEnding, Options, WordSeparator, WordSplitter, WrapAlgorithm};

pub const ESC: char = '\x1b';

#[derive(Clone, Copy, Debug, PartialEq, Eq)]
pub enum Algo {
    FirstFit,
    OptimalFit,
}
#[derive(Clone, Copy, Debug, PartialEq, Eq)]
pub enum Sep {
    Ascii,
    Unicode,
}
#[derive(Clone, Copy, Debug, PartialEq, Eq)]
pub enum Spl {
    None,
    Hyphen,
    /// custom splitter: a split point after every second character (inserts hyphens)
    Every2,
}

#[derive(Clone, Debug)]
pub struct Opts {
    pub width: usize,
    pub algo: Algo,
    pub sep: Sep,
    pub spl: Spl,
    pub break_words: bool,
    pub initial: &'static str,
    pub subsequent: &'static str,
    pub crlf: bool,
}

/// a split point after every second character, but never directly after a space (words of the Unicode separator
/// may contain spaces; a slice ending in a space is allowed by C01 only for force-breaking)
pub fn every2(word: &str) -> Vec<usize> {
    let cs: Vec<(usize, char)> = word.char_indices().collect();
    (1..cs.len()).filter(|k| k % 2 == 0 && cs[k - 1].1 != ' ').map(|k| cs[k].0).collect()
}

impl Opts {
    pub fn plain(width: usize) -> Opts {
        Opts { width, algo: Algo::FirstFit, sep: Sep::Ascii, spl: Spl::None, break_words: true, initial: "", subsequent: "", crlf: false }
    }
    pub fn options(&self) -> Options<'static> {
        let mut o = Options::new(self.width)
            .initial_indent(self.initial)
            .subsequent_indent(self.subsequent)
            .break_words(self.break_words)
            .line_ending(if self.crlf { LineEnding::CRLF } else { LineEnding::LF });
        o = o.wrap_algorithm(match self.algo {
            Algo::FirstFit => WrapAlgorithm::FirstFit,
            #[cfg(feature = "full")]
            Algo::OptimalFit => WrapAlgorithm::new_optimal_fit(),
            #[cfg(not(feature = "full"))]
            Algo::OptimalFit => WrapAlgorithm::FirstFit,
        });
        o = o.word_separator(match self.sep {
            Sep::Ascii => WordSeparator::AsciiSpace,
            #[cfg(feature = "full")]
            Sep::Unicode => WordSeparator::UnicodeBreakProperties,
            #[cfg(not(feature = "full"))]
            Sep::Unicode => WordSeparator::AsciiSpace,
        });
        o.word_splitter(match self.spl {
            Spl::None => WordSplitter::NoHyphenation,
            Spl::Hyphen => WordSplitter::HyphenSplitter,
            Spl::Every2 => WordSplitter::Custom(every2),
        })
    }
    pub fn indent_of(&self, k: usize) -> &'static str {
        if k == 0 { self.initial } else { self.subsequent }
    }
    pub fn le(&self) -> &'static str {
        if self.crlf { "\r\n" } else { "\n" }
    }
    pub fn to_json(&self) -> Value {
        json!({"width": self.width, "algo": format!("{:?}", self.algo), "sep": format!("{:?}", self.sep), "splitter": format!("{:?}", self.spl),
               "break_words": self.break_words, "initial_indent": self.initial, "subsequent_indent": self.subsequent, "crlf": self.crlf})
    }
    pub fn from_json(v: &Value) -> Opts {
        fn leak(s: &str) -> &'static str {
            Box::leak(s.to_string().into_boxed_str())
        }
        Opts {
            width: v["width"].as_u64().unwrap() as usize,
            algo: if v["algo"] == "OptimalFit" { Algo::OptimalFit } else { Algo::FirstFit },
            sep: if v["sep"] == "Unicode" { Sep::Unicode } else { Sep::Ascii },
            spl: match v["splitter"].as_str().unwrap_or("None") { "Hyphen" => Spl::Hyphen, "Every2" => Spl::Every2, _ => Spl::None },
            break_words: v["break_words"].as_bool().unwrap_or(true),
            initial: leak(v["initial_indent"].as_str().unwrap_or("")),
            subsequent: leak(v["subsequent_indent"].as_str().unwrap_or("")),
            crlf: v["crlf"].as_bool().unwrap_or(false),
        }
    }
}

pub fn algos() -> Vec<Algo> {
    if cfg!(feature = "full") { vec![Algo::FirstFit, Algo::OptimalFit] } else { vec![Algo::FirstFit] }
}
pub fn seps() -> Vec<Sep> {
    if cfg!(feature = "full") { vec![Sep::Ascii, Sep::Unicode] } else { vec![Sep::Ascii] }
}

pub const INDENT_PAIRS: &[(&str, &str)] = &[("", ""), ("> ", ""), ("", "  "), ("* ", "    "), ("你 ", "éé"), ("      ", " "), ("\x1b[1m", "\u{200b}"), ("-", "你"), ("\x1b[1m* \x1b[0m", "  ")];

/// option grid (without width); `rich` adds the custom splitter and more indent pairs
pub fn option_grid(rich: bool) -> Vec<Opts> {
    let mut v = Vec::new();
    let spls: &[Spl] = if rich { &[Spl::None, Spl::Hyphen, Spl::Every2] } else { &[Spl::None, Spl::Hyphen] };
    let pairs: &[(&str, &str)] = if rich { INDENT_PAIRS } else { &INDENT_PAIRS[..4] };
    for algo in algos() {
        for sep in seps() {
            for &spl in spls {
                for bw in [true, false] {
                    for &(i, s) in pairs {
                        v.push(Opts { width: 0, algo, sep, spl, break_words: bw, initial: i, subsequent: s, crlf: false });
                    }
                }
            }
        }
    }
    v
}

#[derive(Clone, Debug)]
pub struct TextCase {
    pub text: String,
    pub opts: Opts,
}
impl CaseJson for TextCase {
    fn to_json(&self) -> Value {
        json!({"text": self.text, "opts": self.opts.to_json()})
    }
}
impl TextCase {
    pub fn from_json(v: &Value) -> TextCase {
        TextCase { text: v["text"].as_str().unwrap().to_string(), opts: Opts::from_json(&v["opts"]) }
    }
}

#[derive(Clone, Debug)]
pub struct StrCase {
    pub text: String,
    pub n: usize,
    pub aux: String,
}
impl CaseJson for StrCase {
    fn to_json(&self) -> Value {
        json!({"text": self.text, "n": self.n, "aux": self.aux})
    }
}
impl StrCase {
    pub fn from_json(v: &Value) -> StrCase {
        StrCase { text: v["text"].as_str().unwrap().to_string(), n: v["n"].as_u64().unwrap_or(0) as usize, aux: v["aux"].as_str().unwrap_or("").to_string() }
    }
}

// ------------------------------------------------------------------------------------------ oracles

/// column width of one char, straight from the tables the property refers to
pub fn ch_width_oracle(c: char) -> usize {
    #[cfg(feature = "full")]
    {
        unicode_width::UnicodeWidthChar::width(c).unwrap_or(0)
    }
    #[cfg(not(feature = "full"))]
    {
        if (c as u32) < 0x1100 { 1 } else { 2 }
    }
}

/// Split a text into (is_sequence, piece) following the property text of C10 literally:
/// CSI = ESC [ ... up to a final byte in @..~ ; OSC = ESC ] ... up to BEL or ESC \ .
/// Returns None if some ESC does not begin a well-formed sequence.
pub fn ansi_pieces(text: &str) -> Option<Vec<(bool, &str)>> {
    let b: Vec<(usize, char)> = text.char_indices().collect();
    let mut out = Vec::new();
    let mut i = 0;
    let end = text.len();
    let pos = |k: usize| if k < b.len() { b[k].0 } else { end };
    while i < b.len() {
        let (p, c) = b[i];
        if c != ESC {
            out.push((false, &text[p..pos(i + 1)]));
            i += 1;
            continue;
        }
        if i + 1 >= b.len() {
            return None;
        }
        match b[i + 1].1 {
            '[' => {
                let mut j = i + 2;
                loop {
                    if j >= b.len() {
                        return None;
                    }
                    if ('\x40'..='\x7e').contains(&b[j].1) {
                        break;
                    }
                    j += 1;
                }
                out.push((true, &text[p..pos(j + 1)]));
                i = j + 1;
            }
            ']' => {
                let mut j = i + 2;
                loop {
                    if j >= b.len() {
                        return None;
                    }
                    if b[j].1 == '\x07' {
                        break;
                    }
                    if b[j].1 == ESC {
                        if j + 1 < b.len() && b[j + 1].1 == '\\' {
                            j += 1;
                            break;
                        }
                        return None; // ESC inside an OSC body that is not the string terminator
                    }
                    j += 1;
                }
                out.push((true, &text[p..pos(j + 1)]));
                i = j + 1;
            }
            _ => return None,
        }
    }
    Some(out)
}

pub fn well_formed(text: &str) -> bool {
    ansi_pieces(text).is_some()
}

/// text with CSI/OSC sequences removed (only for well-formed texts)
pub fn strip_ansi(text: &str) -> Option<String> {
    Some(ansi_pieces(text)?.iter().filter(|(s, _)| !*s).map(|(_, p)| *p).collect())
}

/// display width per the property statement (only for well-formed texts)
pub fn dw_oracle(text: &str) -> Option<usize> {
    Some(strip_ansi(text)?.chars().map(ch_width_oracle).sum())
}

/// display width for texts the caller knows to be ESC-free or well-formed
pub fn dw(text: &str) -> usize {
    dw_oracle(text).unwrap_or_else(|| textwrap::core::display_width(text))
}

/// the characters of `text` that display_width counts, per C10's wording, also for sequences that are cut short: after ESC, `[`
/// hides everything through the first byte in `@..~` (or to the end), `]` everything through BEL or ESC `\` (or to the end), any
/// other character is hidden itself
pub fn visible_chars(text: &str) -> Vec<char> {
    let cs: Vec<char> = text.chars().collect();
    let mut out = Vec::new();
    let mut i = 0;
    while i < cs.len() {
        if cs[i] != ESC {
            out.push(cs[i]);
            i += 1;
            continue;
        }
        i += 1;
        if i >= cs.len() {
            break;
        }
        match cs[i] {
            '[' => {
                i += 1;
                while i < cs.len() && !('\x40'..='\x7e').contains(&cs[i]) {
                    i += 1;
                }
                i += 1;
            }
            ']' => {
                i += 1;
                let mut last = ']';
                while i < cs.len() {
                    let c = cs[i];
                    i += 1;
                    if c == '\x07' || (c == '\\' && last == ESC) {
                        break;
                    }
                    last = c;
                }
            }
            _ => i += 1,
        }
    }
    out
}

pub fn count_nonzero_width_chars(text: &str) -> usize {
    visible_chars(text).into_iter().filter(|c| ch_width_oracle(*c) > 0).count()
}

/// the input class of known findings KF5/KF6: a well-formed escape sequence that a word-level operation cuts in two — it contains a
/// space and the ASCII-space separator is used, or it contains a hyphen and the hyphen splitter is used
pub fn seq_cut_class(text: &str, o: &Opts) -> &'static str {
    let cut = ansi_pieces(text).map_or(false, |ps| ps.iter().any(|(is_seq, t)| *is_seq && ((o.sep == Sep::Ascii && t.contains(' ')) || (o.spl == Spl::Hyphen && t.contains('-')))));
    if cut { "[class=KF5-escape-sequence-cut-by-separator-or-splitter] " } else { "" }
}

/// split at the configured line ending
pub fn paragraphs<'a>(text: &'a str, crlf: bool) -> Vec<&'a str> {
    text.split(if crlf { "\r\n" } else { "\n" }).collect()
}

pub fn lines_json(lines: &[std::borrow::Cow<'_, str>]) -> Value {
    Value::Array(lines.iter().map(|l| Value::String(l.to_string())).collect())
}
