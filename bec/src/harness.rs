//! Runner for bounded exhaustive contract checks: enumerates cases in parallel, catches panics,
//! guards against hangs, counts evaluations / non-trivial cases, keeps samples and the first failures.
use rayon::prelude::*;
use serde_json::{json, Value};
use std::panic::{catch_unwind, AssertUnwindSafe};
use std::sync::atomic::{AtomicBool, AtomicU64, Ordering};
use std::sync::{Arc, Mutex};
use std::time::{Duration, Instant};

/// Outcome of one contract evaluation: Ok(nontrivial?) or Err(description of the violated clause)
pub type Outcome = Result<bool, String>;

pub struct ContractReport {
    pub name: String,
    pub clause: String,
    pub scope: String,
    pub evaluations: u64,
    pub nontrivial: u64,
    pub samples: Vec<Value>,
    pub failures: Vec<Value>,
    /// per failure class: (number of failing cases, order-independent fingerprint of their case indices) — over ALL cases, not only the kept ones
    pub class_stats: Vec<(String, u64, u64)>,
    pub exhaustive: bool,
    pub wall_s: f64,
}

impl ContractReport {
    pub fn to_json(&self) -> Value {
        json!({
            "contract": self.name, "clause": self.clause, "scope": self.scope,
            "evaluations": self.evaluations, "distinct_nontrivial": self.nontrivial,
            "samples": self.samples, "failures": self.failures, "exhaustive": self.exhaustive,
            "class_stats": self.class_stats.iter().map(|(c, n, fp)| json!({"class": c, "count": n, "fingerprint": format!("{:016x}", fp)})).collect::<Vec<_>>(),
            "wall_s": (self.wall_s * 100.0).round() / 100.0,
        })
    }
}

const MAX_FAILURES: usize = 5;
const MAX_SAMPLES: usize = 4;
/// a single evaluation taking longer than this is reported as a hang (C04)
pub const HANG_SECS: u64 = 20;

struct Slot {
    started: Mutex<Option<(Instant, String)>>,
}

/// Evaluate `check` on `n` cases produced by `make(i)`; cases must be distinct by construction.
/// `make` returns None for indices that do not denote a case (filtered out).
pub fn run_indexed<C, M, F>(name: &str, clause: &str, scope: &str, n: u64, exhaustive: bool, make: M, check: F) -> ContractReport
where
    C: Send,
    M: Fn(u64) -> Option<C> + Sync,
    F: Fn(&C) -> Outcome + Sync,
    C: CaseJson,
{
    let t0 = Instant::now();
    let evals = AtomicU64::new(0);
    let nontriv = AtomicU64::new(0);
    let samples = Mutex::new(Vec::<(u64, Value)>::new());
    let failures = Mutex::new(Vec::<(u64, Value)>::new());
    let class_stats = Mutex::new(std::collections::BTreeMap::<String, (u64, u64)>::new());
    let stop = AtomicBool::new(false);
    let nthreads = rayon::current_num_threads();
    let slots: Arc<Vec<Slot>> = Arc::new((0..nthreads + 1).map(|_| Slot { started: Mutex::new(None) }).collect());
    let done = Arc::new(AtomicBool::new(false));
    // watchdog: a case that runs for more than HANG_SECS is a hang -> report and abort the process
    let wd = {
        let slots = slots.clone();
        let done = done.clone();
        let name = name.to_string();
        std::thread::spawn(move || {
            while !done.load(Ordering::Relaxed) {
                std::thread::sleep(Duration::from_millis(25));
                for s in slots.iter() {
                    if let Some((t, case)) = &*s.started.lock().unwrap() {
                        if t.elapsed() > Duration::from_secs(HANG_SECS) {
                            let v = json!({"contract": name, "hang": true, "case": serde_json::from_str::<Value>(case).unwrap_or(Value::Null),
                                "message": format!("evaluation did not return within {} s", HANG_SECS)});
                            println!("BEC-HANG {}", v);
                            std::process::exit(3);
                        }
                    }
                }
            }
        })
    };
    let chunk: u64 = 256;
    let nchunks = (n + chunk - 1) / chunk;
    (0..nchunks).into_par_iter().for_each(|c| {
        if stop.load(Ordering::Relaxed) {
            return;
        }
        let tid = rayon::current_thread_index().unwrap_or(nthreads);
        let lo = c * chunk;
        let hi = std::cmp::min(n, lo + chunk);
        for i in lo..hi {
            let case = match make(i) {
                Some(c) => c,
                None => continue,
            };
            *slots[tid].started.lock().unwrap() = Some((Instant::now(), case.to_json().to_string()));
            let r = catch_unwind(AssertUnwindSafe(|| check(&case)));
            *slots[tid].started.lock().unwrap() = None;
            evals.fetch_add(1, Ordering::Relaxed);
            match r {
                Ok(Ok(nt)) => {
                    if nt {
                        let k = nontriv.fetch_add(1, Ordering::Relaxed);
                        if k < 64 {
                            let mut s = samples.lock().unwrap();
                            if s.len() < 64 {
                                s.push((i, case.to_json()));
                            }
                        }
                    }
                }
                Ok(Err(msg)) => {
                    // failures may carry a class "[class=...]": kept apart (at most 8 per class) so that a recorded finding
                    // can never crowd out a different violation; only unclassified failures stop the run early
                    let class = if msg.starts_with("[class=") { msg[7..].split(']').next().unwrap_or("").to_string() } else { String::new() };
                    if !class.is_empty() {
                        let mut cs = class_stats.lock().unwrap();
                        let e = cs.entry(class.clone()).or_insert((0, 0));
                        e.0 += 1;
                        e.1 = e.1.wrapping_add((i + 1).wrapping_mul(0x9E37_79B9_7F4A_7C15).rotate_left((i % 61) as u32));
                    }
                    let mut f = failures.lock().unwrap();
                    let same = f.iter().filter(|(_, v)| v["class"].as_str().unwrap_or("") == class).count();
                    if class.is_empty() || same < 8 {
                        f.push((i, json!({"case": case.to_json(), "message": msg, "class": class})));
                    }
                    if class.is_empty() && same + 1 >= 64 {
                        stop.store(true, Ordering::Relaxed);
                    }
                }
                Err(p) => {
                    let msg = if let Some(s) = p.downcast_ref::<&str>() {
                        s.to_string()
                    } else if let Some(s) = p.downcast_ref::<String>() {
                        s.clone()
                    } else {
                        "panic".to_string()
                    };
                    let mut f = failures.lock().unwrap();
                    f.push((i, json!({"case": case.to_json(), "message": format!("PANIC: {}", msg), "panic": true})));
                    if f.len() >= 64 {
                        stop.store(true, Ordering::Relaxed);
                    }
                }
            }
        }
    });
    done.store(true, Ordering::Relaxed);
    let _ = wd.join();
    let mut s = samples.into_inner().unwrap();
    s.sort_by_key(|x| x.0);
    let mut f = failures.into_inner().unwrap();
    f.sort_by_key(|x| x.0); // smallest case (enumeration order) first
    ContractReport {
        name: name.to_string(),
        clause: clause.to_string(),
        scope: scope.to_string(),
        evaluations: evals.load(Ordering::Relaxed),
        nontrivial: nontriv.load(Ordering::Relaxed),
        samples: s.into_iter().take(MAX_SAMPLES).map(|x| x.1).collect(),
        failures: {
            // the smallest cases of every class
            let mut out: Vec<Value> = Vec::new();
            for (_, v) in f.into_iter() {
                let c = v["class"].as_str().unwrap_or("").to_string();
                if out.iter().filter(|o| o["class"].as_str().unwrap_or("") == c).count() < MAX_FAILURES {
                    out.push(v);
                }
            }
            out
        },
        class_stats: class_stats.into_inner().unwrap().into_iter().map(|(c, (n, fp))| (c, n, fp)).collect(),
        exhaustive: exhaustive && !stop.load(Ordering::Relaxed),
        wall_s: t0.elapsed().as_secs_f64(),
    }
}

pub trait CaseJson {
    fn to_json(&self) -> Value;
}

/// tiny deterministic PRNG (splitmix64) for the sampled parts; seeded from VERIF_SEED
#[derive(Clone)]
pub struct Rng(pub u64);
impl Rng {
    pub fn next(&mut self) -> u64 {
        self.0 = self.0.wrapping_add(0x9E3779B97F4A7C15);
        let mut z = self.0;
        z = (z ^ (z >> 30)).wrapping_mul(0xBF58476D1CE4E5B9);
        z = (z ^ (z >> 27)).wrapping_mul(0x94D049BB133111EB);
        z ^ (z >> 31)
    }
    pub fn below(&mut self, n: u64) -> u64 {
        if n == 0 { 0 } else { self.next() % n }
    }
    pub fn for_index(seed: u64, i: u64) -> Rng {
        let mut r = Rng(seed ^ i.wrapping_mul(0xD6E8FEB86659FD93));
        r.next();
        r
    }
}

/// number of strings of length <= n over k symbols
pub fn count_strings(k: u64, n: u32) -> u64 {
    (0..=n).map(|l| k.pow(l)).sum()
}

/// i-th string (shortest first) over `alphabet` (symbols may be multi-char strings)
pub fn nth_string(alphabet: &[&str], mut i: u64, maxlen: u32) -> String {
    let k = alphabet.len() as u64;
    let mut len = 0u32;
    loop {
        let c = k.pow(len);
        if i < c || len == maxlen {
            break;
        }
        i -= c;
        len += 1;
    }
    let mut out = String::new();
    let mut digits = Vec::with_capacity(len as usize);
    for _ in 0..len {
        digits.push((i % k) as usize);
        i /= k;
    }
    for d in digits.iter().rev() {
        out.push_str(alphabet[*d]);
    }
    out
}
