#!/bin/sh
# Build the framework offline from files on disk: the BEC crate in both feature flavours and a Verus warm-up.
set -e
cd "$(dirname "$0")"
export CARGO_NET_OFFLINE=true RUSTFLAGS="--cfg fuzzing"
(cd bec && cargo build --release --offline --target-dir target)
(cd bec && cargo build --release --offline --no-default-features --target-dir target-min)
python3 tools/vx.py verify U1 >/dev/null 2>&1 || true
echo setup ok
