// K1 — appended to a scratch copy of src/core.rs (child module, so the private `ch_width` is in scope).
// Loop-free, full domain: `c` ranges over every Unicode scalar value, so this is a complete proof of
// assumption A2 (`ch_width(c) <= c.len_utf8()`) for the feature set the copy is built with.
#[cfg(kani)]
mod verif_kani {
    use super::*;

    #[kani::proof]
    fn k1_ch_width_le_len_utf8() {
        let c: char = kani::any();
        let w = ch_width(c);
        assert!(w <= c.len_utf8());
    }

    // axiom chw_space of prelude/ansi_chunks.vrs (C20's equal-row-width theorem): a space is one column wide
    #[kani::proof]
    fn k1_space_is_one_column() {
        assert!(ch_width(' ') == 1);
    }

    // C10's per-character widths, for every char: with the unicode-width feature the table value (0 where the table has none:
    // control characters), without it 1 below U+1100 and 2 from there on
    #[kani::proof]
    fn k1_width_rule() {
        let c: char = kani::any();
        #[cfg(feature = "unicode-width")]
        assert!(ch_width(c) == unicode_width::UnicodeWidthChar::width(c).unwrap_or(0));
        #[cfg(not(feature = "unicode-width"))]
        assert!(ch_width(c) == if (c as u32) < 0x1100 { 1 } else { 2 });
    }

    // reachability / vacuity guard: the claim below is false and must be refuted
    #[kani::proof]
    #[kani::should_panic]
    fn k1_probe_must_fail() {
        let c: char = kani::any();
        assert!(ch_width(c) == 0);
    }
}
