// K2 — appended to a scratch copy of src/wrap_algorithms.rs. BOUNDED (3 fragments; widths, whitespace and penalties are
// widths are quarter-integers in [0, 4), whitespace and penalties in [0, 2); two line widths in [0, 8)): wrap_first_fit's partition (C06) and greedy-maximal (C07)
// postconditions with bit-precise IEEE-754 semantics — a cross-check of assumption A1 of the Verus units, which treat the
// float operations as uninterpreted total functions.
#[cfg(kani)]
mod verif_kani_k2 {
    use super::*;

    #[derive(Debug)]
    struct F(f64, f64, f64);
    impl Fragment for F {
        fn width(&self) -> f64 { self.0 }
        fn whitespace_width(&self) -> f64 { self.1 }
        fn penalty_width(&self) -> f64 { self.2 }
    }

    fn q(max: u8) -> f64 {
        let x: u8 = kani::any();
        kani::assume(x < max);
        x as f64 / 4.0
    }

    #[kani::proof]
    #[kani::unwind(5)]
    fn k2_first_fit_partition_and_greedy() {
        let frags = [F(q(16), q(8), q(8)), F(q(16), q(8), q(8)), F(q(16), q(8), q(8))];
        let widths = [q(32), q(32)];
        let lines = wrap_first_fit(&frags, &widths);
        // C06: ordered partition into non-empty contiguous runs
        assert!(lines.len() >= 1 && lines.len() <= 3);
        let mut pos = 0usize;
        let mut k = 0usize;
        while k < lines.len() {
            assert!(!lines[k].is_empty());
            assert!(lines[k].as_ptr() == frags[pos..].as_ptr());
            // C07: no non-first fragment of the line overflowed; the first fragment of the next line did
            let lw = if k < 2 { widths[k] } else { widths[1] };
            let mut acc = 0.0f64;
            let mut t = 0usize;
            while t < lines[k].len() {
                let f = &lines[k][t];
                if t > 0 {
                    assert!(!(acc + f.0 + f.2 > lw));
                }
                acc += f.0 + f.1;
                t += 1;
            }
            pos += lines[k].len();
            if k + 1 < lines.len() {
                let f = &lines[k + 1][0];
                assert!(acc + f.0 + f.2 > lw);
            }
            k += 1;
        }
        assert!(pos == 3);
    }
}
