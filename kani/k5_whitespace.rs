// K5 — appended to a scratch copy of src/indentation.rs. Loop-free, no symbolic input needed: the two facts about
// `char::is_whitespace` that unit U9 states as axioms / uses about concrete characters, checked on the real std function
// (CBMC executes the std implementation, table lookup included):
//   cr_is_ws : '\r'.is_whitespace()
// and, for orientation, that '\n' and ' ' are whitespace too while 'a' is not. The probe must fail.
#[cfg(kani)]
mod verif_kani_k5 {
    #[kani::proof]
    fn k5_cr_is_whitespace() {
        assert!('\r'.is_whitespace());
        assert!('\n'.is_whitespace());
        assert!(' '.is_whitespace());
        assert!('\u{3000}'.is_whitespace());
        assert!(!'a'.is_whitespace());
    }

    // full domain, loop-free: the two char-level `assume_specification`s of contracts/prelude/std_more.vrs (A4), on the real std functions
    //   char::is_ascii(c)            == (c as u32 < 128)                  for every char
    //   u8::is_ascii_whitespace(b)   == b in {32, 9, 10, 12, 13}          for every u8
    #[kani::proof]
    fn k5_is_ascii_all_chars() {
        let c: char = kani::any();
        assert!(c.is_ascii() == ((c as u32) < 128));
    }

    #[kani::proof]
    fn k5_is_ascii_whitespace_all_u8() {
        let b: u8 = kani::any();
        assert!(b.is_ascii_whitespace() == (b == 32 || b == 9 || b == 10 || b == 12 || b == 13));
    }

    // vacuity guard
    #[kani::proof]
    #[kani::should_panic]
    fn k5_probe_must_fail() {
        assert!('a'.is_whitespace());
    }
}
