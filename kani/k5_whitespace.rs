// K5 — appended to a scratch copy of src/indentation.rs. Loop-free, no symbolic input needed: the two facts about
// `char::is_whitespace` that unit U9 states as axioms / uses about concrete characters, checked on the real std function
// (CBMC executes the std implementation, table lookup included):
//   cr_is_ws : '\r'.is_whitespace()
// and, for orientation, that '\n' and ' ' are whitespace too while 'a' is not. The probe must fail.
#[cfg(kani)]
mod verif_kani_k5 {
    #[kani::proof]
    fn k5_cr_is_whitespace() {
        assert!('\r'.is_whitespace());
        assert!('\n'.is_whitespace());
        assert!(' '.is_whitespace());
        assert!('\u{3000}'.is_whitespace());
        assert!(!'a'.is_whitespace());
    }

    // vacuity guard
    #[kani::proof]
    #[kani::should_panic]
    fn k5_probe_must_fail() {
        assert!('a'.is_whitespace());
    }
}
