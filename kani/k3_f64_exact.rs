// K3 — appended to a scratch copy of src/core.rs (child module of `core`, so `Word`'s fields and the
// `Fragment` accessors are the real ones). Loop-free, full domain of `usize`: a complete, bit-precise
// (IEEE-754 binary64, round-to-nearest as CBMC models `as f64` and `+`) proof of the three A16 axioms that
// unit U17 states about `u2f(x) = x as f64`, the conversion `Word::width()` / `whitespace_width()` /
// `penalty_width()` and `WrapAlgorithm::wrap` perform:
//   f64_small_int_add : a + b < 2^53  ==>  (a as f64) + (b as f64) == ((a + b) as f64)
//   f64_conv_monotone : a <= b        ==>  !((a as f64) > (b as f64))
//   f64_zero          : 0usize as f64 == 0.0          and  size_of::<usize>() == 8
#[cfg(kani)]
mod verif_kani_k3 {
    use super::*;

    const TWO53: usize = 1usize << 53;

    fn word_of_width(w: usize) -> Word<'static> {
        Word { word: "", width: w, whitespace: "", penalty: "" }
    }

    #[kani::proof]
    fn k3_f64_small_int_add() {
        let a: usize = kani::any();
        let b: usize = kani::any();
        kani::assume(a < TWO53 && b < TWO53 && a + b < TWO53);
        // the conversion the code performs is the one in the Fragment accessor
        let fa = word_of_width(a).width();
        let fb = word_of_width(b).width();
        assert!(fa == a as f64 && fb == b as f64);
        assert!(fa + fb == (a + b) as f64);
    }

    #[kani::proof]
    fn k3_f64_conv_monotone() {
        let a: usize = kani::any();
        let b: usize = kani::any();
        kani::assume(a <= b);
        assert!(!((a as f64) > (b as f64)));
    }

    #[kani::proof]
    fn k3_f64_zero_and_target() {
        assert!(0usize as f64 == 0.0);
        assert!(word_of_width(0).width() == 0.0);
        assert!(core::mem::size_of::<usize>() == 8);
    }

    // reachability / vacuity guard: without the 2^53 bound the sum is not exact, so this must be refuted
    #[kani::proof]
    #[kani::should_panic]
    fn k3_probe_must_fail() {
        let a: usize = kani::any();
        let b: usize = kani::any();
        kani::assume(a < (1usize << 60) && b < (1usize << 60));
        assert!((a as f64) + (b as f64) == (a + b) as f64);
    }
}
