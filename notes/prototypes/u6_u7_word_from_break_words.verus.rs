use vstd::prelude::*;
use vstd::utf8::*;
use vstd::string::StringSliceAdditionalSpecFns;
verus! {
pub mod specs {
use super::*;

pub uninterp spec fn dw(s: Seq<char>) -> nat;                       // U3
#[verifier::external_body]
pub fn display_width(text: &str) -> (w: usize) ensures w == dw(text@) { unimplemented!() }

pub axiom fn str_len_bound(s: &str) ensures s.spec_bytes().len() <= isize::MAX;

pub open spec fn all_byte(b: Seq<u8>, c: u8) -> bool { forall|i: int| 0 <= i < b.len() ==> #[trigger] b[i] == c }

// std: str::trim_end_matches(char) for an ASCII char removes the maximal run of that byte at the end (A4)
#[verifier::external_body]
pub fn vx_str_trim_end_matches_char<'a>(s: &'a str, c: char) -> (r: &'a str)
    requires (c as u32) < 128
    ensures
        r.spec_bytes().len() <= s.spec_bytes().len(),
        r.spec_bytes() == s.spec_bytes().take(r.spec_bytes().len() as int),
        all_byte(s.spec_bytes().skip(r.spec_bytes().len() as int), c as u8),
        r.spec_bytes().len() == 0 || r.spec_bytes().last() != c as u8,
{ s.trim_end_matches(c) }

#[verifier::external_body]
pub fn vx_str_slice_from<'a>(s: &'a str, a: usize) -> (r: &'a str)
    requires a <= s.spec_bytes().len(), is_char_boundary(s.spec_bytes(), a as int),
    ensures r.spec_bytes() == s.spec_bytes().skip(a as int)
{ &s[a..] }

pub proof fn boundary_after_ascii(b: Seq<u8>, i: int)
    requires valid_utf8(b), 0 <= i < b.len(), b[i] < 128,
    ensures is_char_boundary(b, i), is_char_boundary(b, i + 1),
{
    is_char_boundary_iff_is_leading_byte(b, i);
    assert(is_leading_byte_width_1(b[i]));
    if i + 1 == b.len() { is_char_boundary_start_end_of_seq(b); } else { boundary_step(b, i); }
}
pub proof fn boundary_step(b: Seq<u8>, i: int)
    requires valid_utf8(b), 0 <= i < b.len(), is_char_boundary(b, i), b[i] < 128,
    ensures is_char_boundary(b, i + 1)
    decreases i
{
    reveal_with_fuel(is_char_boundary, 2);
    reveal_with_fuel(valid_utf8, 2);
    if i == 0 {
        assert(length_of_first_scalar(b) == 1);
        assert(is_char_boundary(pop_first_scalar(b), 0));
    } else {
        let l = length_of_first_scalar(b);
        let rest = pop_first_scalar(b);
        assert(rest[i - l] == b[i]);
        boundary_step(rest, i - l);
    }
}
}
use specs::*;

#[derive(Copy, Clone)]
pub struct Word<'a> {
    pub word: &'a str,
    pub whitespace: &'a str,
    pub penalty: &'a str,
    pub width: usize,
}

impl<'a> Word<'a> {
    pub fn from(word: &str) -> (r: Word<'_>)
        ensures
            // C11: lossless, whitespace is spaces only, the word does not end in a space,
            //      cached width is the display width, no penalty
            r.word.spec_bytes() + r.whitespace.spec_bytes() == word.spec_bytes(),
            all_byte(r.whitespace.spec_bytes(), 32),
            r.word.spec_bytes().len() == 0 || r.word.spec_bytes().last() != 32,
            r.width == dw(r.word@),
            r.penalty.spec_bytes().len() == 0,
    {
        let trimmed = vx_str_trim_end_matches_char(word, ' ');
        proof {
            let b = word.spec_bytes();
            let n = trimmed.spec_bytes().len() as int;
            encode_utf8_valid_utf8(word@); str_len_bound(word); str_len_bound(trimmed);
            if n < b.len() { assert(b.skip(n)[0] == 32); boundary_after_ascii(b, n); } else { is_char_boundary_start_end_of_seq(b); }
            assert(b.take(n) + b.skip(n) =~= b);
            reveal_strlit(""); assert(""@ =~= Seq::<char>::empty()); assert(encode_utf8(Seq::<char>::empty()) =~= Seq::<u8>::empty());
        }
        Word {
            word: trimmed,
            width: display_width(trimmed),
            whitespace: vx_str_slice_from(word, trimmed.len()),
            penalty: "",
        }
    }
}

/// U6: force-break dispatch. `break_apart` is a from_fn closure (bounded only); its contract is assumed here.
pub open spec fn wbytes(w: Word<'_>) -> Seq<u8> { w.word.spec_bytes() + w.whitespace.spec_bytes() }
pub open spec fn flat(ws: Seq<Word<'_>>) -> Seq<u8>
    decreases ws.len()
{ if ws.len() == 0 { Seq::empty() } else { flat(ws.drop_last()) + wbytes(ws.last()) } }
pub proof fn flat_one(w: Word<'_>)
    ensures flat(seq![w]) =~= wbytes(w)
{
    assert(seq![w].drop_last() =~= Seq::<Word<'_>>::empty());
    assert(flat(Seq::<Word<'_>>::empty()) =~= Seq::<u8>::empty());
    assert(flat(seq![w]) =~= flat(seq![w].drop_last()) + wbytes(seq![w].last()));
}
pub proof fn flat_concat(a: Seq<Word<'_>>, b: Seq<Word<'_>>)
    ensures flat(a + b) =~= flat(a) + flat(b)
    decreases b.len()
{
    if b.len() == 0 { assert(a + b =~= a); }
    else { assert((a + b).drop_last() =~= a + b.drop_last()); assert((a + b).last() == b.last()); flat_concat(a, b.drop_last()); }
}

#[verifier::external_body]
pub fn vx_vec_extend_break_apart<'a>(v: &mut Vec<Word<'a>>, word: &Word<'a>, line_width: usize)
    ensures exists|pieces: Seq<Word<'a>>| final(v)@ == old(v)@ + pieces && flat(pieces) == wbytes(*word)
{ unimplemented!() }

pub fn break_words<'a>(words: Vec<Word<'a>>, line_width: usize) -> (shortened_words: Vec<Word<'a>>)
    ensures
        flat(shortened_words@) == flat(words@),                                  // lossless
        (forall|i: int| 0 <= i < words@.len() ==> (#[trigger] words@[i]).width <= line_width) ==> shortened_words@ == words@, // pass-through
{
    let mut shortened_words = Vec::new();
    for word in it: words
        invariant
            it.seq() == words@,
            flat(shortened_words@) == flat(words@.take(it.index@ as int)),
            (forall|i: int| 0 <= i < it.index@ ==> (#[trigger] words@[i]).width <= line_width) ==> shortened_words@ == words@.take(it.index@ as int),
    {
        let ghost prev = shortened_words@;
        let ghost k = it.index@ as int;
        if word.width > line_width {
            vx_vec_extend_break_apart(&mut shortened_words, &word, line_width);
            proof {
                let pieces = choose|pieces: Seq<Word<'a>>| shortened_words@ == prev + pieces && flat(pieces) == wbytes(word);
                flat_concat(prev, pieces);
            }
        } else {
            shortened_words.push(word);
            proof { assert(shortened_words@ =~= prev + seq![word]); flat_concat(prev, seq![word]); flat_one(word); }
        }
        proof {
            assert(words@.take(k + 1) =~= words@.take(k) + seq![words@[k]]);
            flat_concat(words@.take(k), seq![words@[k]]);
            flat_one(words@[k]);
        }
    }
    proof { assert(words@.take(words@.len() as int) =~= words@); }
    shortened_words
}
} // verus!
fn main() {}
