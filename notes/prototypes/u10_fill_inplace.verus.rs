use vstd::prelude::*;
use vstd::string::StringSliceAdditionalSpecFns;
verus! {
pub mod specs {
use super::*;
pub axiom fn str_len_bound(s: &str) ensures s.spec_bytes().len() <= isize::MAX;
pub axiom fn string_len_bound(s: &String) ensures vstd::utf8::encode_utf8(s@).len() <= isize::MAX;

#[derive(Copy, Clone)]
pub struct Word<'a> {
    pub word: &'a str,
    pub whitespace: &'a str,
    pub penalty: &'a str,
    pub width: usize,
}
pub open spec fn wlen(w: Word<'_>) -> nat { w.word.spec_bytes().len() + w.whitespace.spec_bytes().len() }
pub open spec fn wbytes(w: Word<'_>) -> Seq<u8> { w.word.spec_bytes() + w.whitespace.spec_bytes() }
pub open spec fn flat(ws: Seq<Word<'_>>) -> Seq<u8>
    decreases ws.len()
{ if ws.len() == 0 { Seq::empty() } else { flat(ws.drop_last()) + wbytes(ws.last()) } }
pub open spec fn total(ws: Seq<Word<'_>>) -> nat
    decreases ws.len()
{ if ws.len() == 0 { 0 } else { total(ws.drop_last()) + wlen(ws.last()) } }
pub proof fn flat_len(ws: Seq<Word<'_>>) ensures flat(ws).len() == total(ws) decreases ws.len()
{ if ws.len() > 0 { flat_len(ws.drop_last()); } }
pub proof fn total_take_step(ws: Seq<Word<'_>>, k: int)
    requires 0 <= k < ws.len()
    ensures total(ws.take(k + 1)) == total(ws.take(k)) + wlen(ws[k])
{ assert(ws.take(k + 1).drop_last() =~= ws.take(k)); assert(ws.take(k + 1).last() == ws[k]); }
pub proof fn total_take_mono(ws: Seq<Word<'_>>, k: int)
    requires 0 <= k <= ws.len() ensures total(ws.take(k)) <= total(ws) decreases ws.len() - k
{ if k < ws.len() { total_take_step(ws, k); total_take_mono(ws, k + 1); } else { assert(ws.take(k) =~= ws); } }
pub proof fn total_concat(a: Seq<Word<'_>>, b: Seq<Word<'_>>)
    ensures total(a + b) == total(a) + total(b) decreases b.len()
{
    if b.len() == 0 { assert(a + b =~= a); }
    else { assert((a + b).drop_last() =~= a + b.drop_last()); assert((a + b).last() == b.last()); total_concat(a, b.drop_last()); }
}
pub proof fn flat_concat(a: Seq<Word<'_>>, b: Seq<Word<'_>>)
    ensures flat(a + b) =~= flat(a) + flat(b) decreases b.len()
{
    if b.len() == 0 { assert(a + b =~= a); }
    else { assert((a + b).drop_last() =~= a + b.drop_last()); assert((a + b).last() == b.last()); flat_concat(a, b.drop_last()); }
}
pub open spec fn runs_concat<'a>(runs: Seq<&[Word<'a>]>, k: int) -> Seq<Word<'a>>
    decreases k
{ if k <= 0 { Seq::empty() } else { runs_concat(runs, k - 1) + runs[k - 1]@ } }

pub open spec fn run_start(runs: Seq<&[Word<'_>]>, k: int) -> nat { total(runs_concat(runs, k)) }
pub proof fn run_start_step(runs: Seq<&[Word<'_>]>, k: int)
    requires 0 <= k < runs.len()
    ensures run_start(runs, k + 1) == run_start(runs, k) + total(runs[k]@),
            flat(runs_concat(runs, k + 1)) =~= flat(runs_concat(runs, k)) + flat(runs[k]@),
{
    assert(runs_concat(runs, k + 1) == runs_concat(runs, k) + runs[k]@);
    total_concat(runs_concat(runs, k), runs[k]@);
    flat_concat(runs_concat(runs, k), runs[k]@);
}
pub proof fn run_start_mono(runs: Seq<&[Word<'_>]>, k: int, n: int)
    requires 0 <= k <= n <= runs.len()
    ensures run_start(runs, k) <= run_start(runs, n)
    decreases n - k
{ if k < n { run_start_step(runs, n - 1); run_start_mono(runs, k, n - 1); } }

/// index (in the concatenation) of the first word of run k
pub open spec fn run_first(runs: Seq<&[Word<'_>]>, k: int) -> int { runs_concat(runs, k).len() as int }
pub proof fn runs_concat_index(runs: Seq<&[Word<'_>]>, k: int, j: int)
    requires 0 <= k < runs.len(), 0 <= j < runs[k]@.len()
    ensures
        run_first(runs, k) + j < runs_concat(runs, runs.len() as int).len(),
        runs_concat(runs, runs.len() as int)[run_first(runs, k) + j] == runs[k]@[j],
        k + 1 < runs.len() && runs[k + 1]@.len() > 0 ==> run_first(runs, k) + runs[k]@.len() < runs_concat(runs, runs.len() as int).len(),
    decreases runs.len() - k
{
    // runs_concat(runs, k+1) = runs_concat(runs,k) + runs[k]; extend up to runs.len()
    prefix_stable(runs, k + 1, runs.len() as int);
    assert(runs_concat(runs, k + 1) == runs_concat(runs, k) + runs[k]@);
    if k + 1 < runs.len() && runs[k + 1]@.len() > 0 {
        prefix_stable(runs, k + 2, runs.len() as int);
        assert(runs_concat(runs, k + 2) == runs_concat(runs, k + 1) + runs[k + 1]@);
    }
}
/// runs_concat(runs, a) is a prefix of runs_concat(runs, b) for a <= b
pub proof fn prefix_stable(runs: Seq<&[Word<'_>]>, a: int, b: int)
    requires 0 <= a <= b <= runs.len()
    ensures runs_concat(runs, a).len() <= runs_concat(runs, b).len(),
        forall|i: int| 0 <= i < runs_concat(runs, a).len() ==> #[trigger] runs_concat(runs, b)[i] == runs_concat(runs, a)[i]
    decreases b - a
{
    if a < b { prefix_stable(runs, a, b - 1); assert(runs_concat(runs, b) == runs_concat(runs, b - 1) + runs[b - 1]@); }
}
/// flat(first a runs) is a byte prefix of flat(first n runs)
pub proof fn flat_prefix_bytes(runs: Seq<&[Word<'_>]>, a: int, n: int)
    requires 0 <= a <= n <= runs.len()
    ensures flat(runs_concat(runs, a)).len() <= flat(runs_concat(runs, n)).len(),
        forall|i: int| 0 <= i < flat(runs_concat(runs, a)).len() ==> #[trigger] flat(runs_concat(runs, n))[i] == flat(runs_concat(runs, a))[i]
    decreases n - a
{
    if a < n { flat_prefix_bytes(runs, a, n - 1); run_start_step(runs, n - 1); }
}
/// the last byte of a word list whose last word has non-empty, all-space whitespace is a space
pub proof fn flat_last_is_space(ws: Seq<Word<'_>>)
    requires ws.len() > 0, ws.last().whitespace.spec_bytes().len() >= 1,
        forall|j: int| 0 <= j < ws.last().whitespace.spec_bytes().len() ==> ws.last().whitespace.spec_bytes()[j] == 32
    ensures flat(ws).len() >= 1, flat(ws).last() == 32
{
    let w = ws.last();
    assert(flat(ws) == flat(ws.drop_last()) + wbytes(w));
    assert(wbytes(w).last() == w.whitespace.spec_bytes().last());
}

/// C11 (ASCII separator), as needed here: the words tile the line, whitespace is spaces only,
/// and every word but the last is followed by at least one space
pub open spec fn ascii_words_ok(ws: Seq<Word<'_>>, line: Seq<u8>) -> bool {
    &&& flat(ws) == line
    &&& forall|i: int| 0 <= i < ws.len() ==> (forall|j: int| 0 <= j < (#[trigger] ws[i]).whitespace.spec_bytes().len() ==> ws[i].whitespace.spec_bytes()[j] == 32)
    &&& forall|i: int| 0 <= i < ws.len() - 1 ==> (#[trigger] ws[i]).whitespace.spec_bytes().len() >= 1
}
#[verifier::external_body]
pub fn vx_ascii_find_words_collect<'a>(line: &'a str) -> (r: Vec<Word<'a>>)
    ensures ascii_words_ok(r@, line.spec_bytes())
{ unimplemented!() }

/// C06 for wrap_first_fit (proved in U1)
#[verifier::external_body]
pub fn vx_wrap_first_fit_1<'a, 'b>(words: &'b [Word<'a>], width: usize) -> (r: Vec<&'b [Word<'a>]>)
    ensures
        r@.len() >= 1,
        runs_concat(r@, r@.len() as int) == words@,
        words@.len() > 0 ==> forall|k: int| 0 <= k < r@.len() ==> (#[trigger] r@[k])@.len() > 0,
        words@.len() == 0 ==> r@.len() == 1,
{ unimplemented!() }

/// str::split('\n') pieces with their byte offsets in the text
#[verifier::external_body]
pub struct VxSplitChar<'a> { inner: std::str::Split<'a, char> }
impl<'a> VxSplitChar<'a> {
    pub uninterp spec fn text(&self) -> Seq<u8>;
    pub uninterp spec fn pos(&self) -> int;       // byte offset of the next piece; text.len()+1 when exhausted
    #[verifier::external_body]
    pub fn new(s: &'a str, c: char) -> (r: Self) requires c == '\n' ensures r.text() == s.spec_bytes(), r.pos() == 0
    { VxSplitChar { inner: s.split(c) } }
    #[verifier::external_body]
    pub fn next(&mut self) -> (r: Option<&'a str>)
        ensures final(self).text() == old(self).text(),
            match r {
                Some(p) => ({
                    let o = old(self).pos();
                    let n = p.spec_bytes().len() as int;
                    &&& 0 <= o && o + n <= old(self).text().len()
                    &&& old(self).text().subrange(o, o + n) == p.spec_bytes()
                    &&& (forall|i: int| 0 <= i < n ==> p.spec_bytes()[i] != 10)
                    &&& final(self).pos() == o + n + 1
                    &&& (o + n < old(self).text().len() ==> old(self).text()[o + n] == 10)
                }),
                None => old(self).pos() == old(self).text().len() + 1 && final(self).pos() == old(self).pos(),
            }
    { self.inner.next() }
}

/// the in-place edit of C17: same length; a byte changes only from ' ' to '\n'
pub open spec fn only_spaces_to_newlines(old_b: Seq<u8>, new_b: Seq<u8>) -> bool {
    new_b.len() == old_b.len() && forall|i: int| 0 <= i < old_b.len() ==> (#[trigger] new_b[i] == old_b[i] || (old_b[i] == 32 && new_b[i] == 10))
}

#[verifier::external_body]
pub fn vx_string_take_into_bytes(s: &mut String) -> (r: Vec<u8>)
    ensures r@ == vstd::utf8::encode_utf8(old(s)@)
{ std::mem::take(s).into_bytes() }
/// partial: String::from_utf8(..).unwrap() (validity of the edited bytes is not proved here)
#[verifier::external_body]
pub fn vx_string_from_utf8_unwrap(b: Vec<u8>) -> (r: String)
    ensures vstd::utf8::encode_utf8(r@) == b@
{ String::from_utf8(b).unwrap() }

pub open spec fn all_space_targets(idx: Seq<usize>, b: Seq<u8>) -> bool {
    forall|t: int| 0 <= t < idx.len() ==> (#[trigger] idx[t]) < b.len() && b[idx[t] as int] == 32
}
}
use specs::*;

pub fn fill_inplace(text: &mut String, width: usize)
    ensures only_spaces_to_newlines(vstd::utf8::encode_utf8(old(text)@), vstd::utf8::encode_utf8(final(text)@))
{
    let mut indices: Vec<usize> = Vec::new();
    let ghost tb = vstd::utf8::encode_utf8(text@);
    proof { string_len_bound(text); }

    let mut offset = 0;
    let mut vx_it = VxSplitChar::new(text.as_str(), '\n');
    while let Some(line) = vx_it.next()
        invariant
            vx_it.text() == tb, tb.len() <= isize::MAX,
            offset == vx_it.pos(), 0 <= offset <= tb.len() + 1,
            all_space_targets(indices@, tb),
        decreases tb.len() + 1 - vx_it.pos()
    {
        let words = vx_ascii_find_words_collect(line);
        let wrapped_words = vx_wrap_first_fit_1(&words, width);
        let ghost runs = wrapped_words@;
        let ghost lb = line.spec_bytes();
        let ghost o = offset as int;
        proof { flat_len(words@); str_len_bound(line); }

        let mut line_offset = offset;
        for i in 0..wrapped_words.len() - 1
            invariant
                runs == wrapped_words@, runs.len() >= 1,
                runs_concat(runs, runs.len() as int) == words@,
                words@.len() > 0 ==> forall|k: int| 0 <= k < runs.len() ==> (#[trigger] runs[k])@.len() > 0,
                words@.len() == 0 ==> runs.len() == 1,
                ascii_words_ok(words@, lb),
                flat(words@).len() == total(words@), total(words@) == lb.len(), lb.len() <= isize::MAX,
                0 <= o, o + lb.len() <= tb.len(), tb.subrange(o, o + lb.len()) == lb, tb.len() <= isize::MAX,
                offset == o,
                line_offset == o + run_start(runs, i as int),
                all_space_targets(indices@, tb),
        {
            let words = wrapped_words[i];
            proof {
                assert(words == runs[i as int]);
                run_start_step(runs, i as int);
                run_start_mono(runs, i as int + 1, runs.len() as int);
            }
            let line_len = { let mut vx_acc = 0usize; for word in vx_fold: words.iter()
                    invariant vx_fold.seq().len() == words@.len(), forall|t: int| 0 <= t < words@.len() ==> *(#[trigger] vx_fold.seq()[t]) == words@[t],
                        vx_acc == total(words@.take(vx_fold.index@ as int)), total(words@) <= isize::MAX,
                { proof { total_take_step(words@, vx_fold.index@ as int); total_take_mono(words@, vx_fold.index@ as int + 1); }
                  vx_acc = vx_acc + (word.word.len() + word.whitespace.len()); }
                proof { assert(words@.take(words@.len() as int) =~= words@); }
                vx_acc };
            line_offset += line_len;
            proof {
                // the byte before the next run is the last byte of this run's last word: a space
                let k = i as int;
                let all = runs_concat(runs, runs.len() as int);
                assert(runs[k]@.len() > 0 && runs[k + 1]@.len() > 0);
                runs_concat_index(runs, k, runs[k]@.len() - 1);
                let gi = run_first(runs, k) + runs[k]@.len() - 1;        // global index of this run's last word
                assert(all[gi] == runs[k]@.last());
                assert(gi < all.len() - 1);
                assert(all[gi].whitespace.spec_bytes().len() >= 1);
                let pre = runs_concat(runs, k + 1);
                assert(pre == runs_concat(runs, k) + runs[k]@);
                assert(pre.last() == runs[k]@.last());
                flat_last_is_space(pre);
                flat_prefix_bytes(runs, k + 1, runs.len() as int);
                flat_len(pre);
                let p = run_start(runs, k + 1) as int;      // bytes before the next run
                assert(flat(all)[p - 1] == flat(pre)[p - 1]);
                assert(lb[p - 1] == 32);
                assert(tb[o + p - 1] == tb.subrange(o, o + lb.len())[p - 1]);
            }
            let ghost prev = indices@;
            indices.push(line_offset - 1);
            proof {
                assert forall|t: int| 0 <= t < indices@.len() implies (#[trigger] indices@[t]) < tb.len() && tb[indices@[t] as int] == 32 by {
                    if t < prev.len() { assert(indices@[t] == prev[t]); }
                }
            }
        }

        offset += line.len() + 1;
    }

    let mut bytes = vx_string_take_into_bytes(text);
    for k in 0..indices.len()
        invariant
            all_space_targets(indices@, tb), bytes@.len() == tb.len(),
            only_spaces_to_newlines(tb, bytes@),
    {
        let idx = indices[k];
        bytes[idx] = b'\n';
    }
    *text = vx_string_from_utf8_unwrap(bytes);
}
} // verus!
fn main() {}
