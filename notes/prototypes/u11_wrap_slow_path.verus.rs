use vstd::prelude::*;
use vstd::utf8::*;
use vstd::string::StringSliceAdditionalSpecFns;
use std::borrow::Cow;
use vstd::std_specs::iter::IteratorSpec;
verus! {
pub mod specs {
use super::*;

pub axiom fn str_len_bound(s: &str) ensures s.spec_bytes().len() <= isize::MAX;

#[derive(Copy, Clone)]
pub struct Word<'a> {
    pub word: &'a str,
    pub whitespace: &'a str,
    pub penalty: &'a str,
    pub width: usize,
}

#[verifier::external_body] pub struct WordSeparator { x: usize }
#[verifier::external_body] pub struct WordSplitter { x: usize }
#[verifier::external_body] pub struct WrapAlgorithm { x: usize }
#[derive(Clone, Copy)] pub enum LineEnding { CRLF, LF }

pub struct Options<'a> {
    pub width: usize,
    pub line_ending: LineEnding,
    pub initial_indent: &'a str,
    pub subsequent_indent: &'a str,
    pub break_words: bool,
    pub wrap_algorithm: WrapAlgorithm,
    pub word_separator: WordSeparator,
    pub word_splitter: WordSplitter,
}

// ---------- byte-level vocabulary ----------
pub open spec fn wlen(w: Word<'_>) -> nat { w.word.spec_bytes().len() + w.whitespace.spec_bytes().len() }
pub open spec fn wbytes(w: Word<'_>) -> Seq<u8> { w.word.spec_bytes() + w.whitespace.spec_bytes() }

/// bytes of a word list laid end to end
pub open spec fn flat(ws: Seq<Word<'_>>) -> Seq<u8>
    decreases ws.len()
{ if ws.len() == 0 { Seq::empty() } else { flat(ws.drop_last()) + wbytes(ws.last()) } }

pub open spec fn total(ws: Seq<Word<'_>>) -> nat
    decreases ws.len()
{ if ws.len() == 0 { 0 } else { total(ws.drop_last()) + wlen(ws.last()) } }

pub proof fn flat_len(ws: Seq<Word<'_>>)
    ensures flat(ws).len() == total(ws)
    decreases ws.len()
{ if ws.len() > 0 { flat_len(ws.drop_last()); } }

pub proof fn total_take_step(ws: Seq<Word<'_>>, k: int)
    requires 0 <= k < ws.len()
    ensures total(ws.take(k + 1)) == total(ws.take(k)) + wlen(ws[k])
{
    assert(ws.take(k + 1).drop_last() =~= ws.take(k));
    assert(ws.take(k + 1).last() == ws[k]);
}
pub proof fn total_take_mono(ws: Seq<Word<'_>>, k: int)
    requires 0 <= k <= ws.len()
    ensures total(ws.take(k)) <= total(ws)
    decreases ws.len() - k
{
    if k < ws.len() { total_take_step(ws, k); total_take_mono(ws, k + 1); } else { assert(ws.take(k) =~= ws); }
}
pub proof fn total_concat(a: Seq<Word<'_>>, b: Seq<Word<'_>>)
    ensures total(a + b) == total(a) + total(b)
    decreases b.len()
{
    if b.len() == 0 { assert(a + b =~= a); }
    else {
        assert((a + b).drop_last() =~= a + b.drop_last());
        assert((a + b).last() == b.last());
        total_concat(a, b.drop_last());
    }
}

/// words of the first k runs, concatenated
pub open spec fn runs_concat<'a>(runs: Seq<&[Word<'a>]>, k: int) -> Seq<Word<'a>>
    decreases k
{ if k <= 0 { Seq::empty() } else { runs_concat(runs, k - 1) + runs[k - 1]@ } }

/// byte offset at which run k starts: everything before it, whitespace included  (C01 bookkeeping)
pub open spec fn run_start(runs: Seq<&[Word<'_>]>, k: int) -> nat { total(runs_concat(runs, k)) }

pub proof fn empty_str_bytes(s: &str)
    ensures (s@.len() == 0) == (s.spec_bytes().len() == 0)
{
    if s@.len() == 0 {
        assert(s@ =~= Seq::<char>::empty());
        assert(encode_utf8(Seq::<char>::empty()) =~= Seq::<u8>::empty());
    } else {
        let c = s@[0];
        assert(s@ =~= seq![c] + s@.skip(1));
        encode_utf8_concat(seq![c], s@.skip(1));
        encode_utf8_push(Seq::<char>::empty(), c);
        assert(Seq::<char>::empty().push(c) =~= seq![c]);
        assert(encode_utf8(Seq::<char>::empty()) =~= Seq::<u8>::empty());
        assert(encode_scalar(c as u32).len() > 0);
    }
}
pub proof fn run_start_step(runs: Seq<&[Word<'_>]>, k: int)
    requires 0 <= k < runs.len()
    ensures run_start(runs, k + 1) == run_start(runs, k) + total(runs[k]@)
{
    assert(runs_concat(runs, k + 1) == runs_concat(runs, k) + runs[k]@);
    total_concat(runs_concat(runs, k), runs[k]@);
}
pub proof fn run_start_mono(runs: Seq<&[Word<'_>]>, k: int, n: int)
    requires 0 <= k <= n <= runs.len()
    ensures run_start(runs, k) <= run_start(runs, n)
    decreases n - k
{
    if k < n { run_start_step(runs, n - 1); run_start_mono(runs, k, n - 1); }
}
pub proof fn flat_insert0<'a>(ws: Seq<Word<'a>>, w: Word<'a>)
    requires wbytes(w).len() == 0
    ensures flat(ws.insert(0, w)) == flat(ws)
    decreases ws.len()
{
    if ws.len() == 0 {
        assert(ws.insert(0, w) =~= seq![w]);
        assert(seq![w].drop_last() =~= Seq::<Word<'a>>::empty());
        assert(flat(seq![w]) =~= flat(Seq::<Word<'a>>::empty()) + wbytes(w));
        assert(flat(Seq::<Word<'a>>::empty()) =~= Seq::<u8>::empty());
        assert(flat(ws) =~= Seq::<u8>::empty());
        assert(wbytes(w) =~= Seq::<u8>::empty());
    } else {
        assert(ws.insert(0, w).drop_last() =~= ws.drop_last().insert(0, w));
        assert(ws.insert(0, w).last() == ws.last());
        flat_insert0(ws.drop_last(), w);
    }
}

/// the applicable indent of the n-th output line overall (C08)
pub open spec fn indent_of<'a>(o: &Options<'a>, n: int) -> &'a str { if n == 0 { o.initial_indent } else { o.subsequent_indent } }

/// what the k-th produced line must be, as bytes (C01 + C08): indent ++ line[a..a+len] ++ penalty
pub open spec fn expected_line(line: Seq<u8>, o: &Options<'_>, n0: int, runs: Seq<&[Word<'_>]>, k: int) -> Seq<u8> {
    let run = runs[k]@;
    let ind = indent_of(o, n0 + k).spec_bytes();
    if run.len() == 0 { ind } else {
        let a = run_start(runs, k) as int;
        let len = total(run) - run.last().whitespace.spec_bytes().len();
        ind + line.subrange(a, a + len) + run.last().penalty.spec_bytes()
    }
}

// ---------- Cow<str>: transparent wrappers, contracts at byte level (A4) ----------
pub uninterp spec fn cow_bytes(c: Cow<'_, str>) -> Seq<u8>;
pub uninterp spec fn cow_borrowed(c: Cow<'_, str>) -> bool;
#[verifier::external_body]
pub fn vx_cow_from_str<'a>(s: &'a str) -> (r: Cow<'a, str>) ensures cow_bytes(r) == s.spec_bytes(), cow_borrowed(r) { Cow::from(s) }
#[verifier::external_body]
pub fn vx_cow_owned<'a>(s: String) -> (r: Cow<'a, str>) ensures cow_bytes(r) == encode_utf8(s@), !cow_borrowed(r) { Cow::Owned(s) }
#[verifier::external_body]
pub fn vx_cow_add_assign<'a>(c: &mut Cow<'a, str>, rhs: &'a str)
    ensures cow_bytes(*final(c)) == cow_bytes(*old(c)) + rhs.spec_bytes(),
            cow_borrowed(*final(c)) == (if cow_bytes(*old(c)).len() == 0 { true } else if rhs.spec_bytes().len() == 0 { cow_borrowed(*old(c)) } else { false }),
{ *c += rhs; }
#[verifier::external_body]
pub fn vx_cow_to_mut_push_str<'a>(c: &mut Cow<'a, str>, rhs: &str)
    ensures cow_bytes(*final(c)) == cow_bytes(*old(c)) + rhs.spec_bytes(), !cow_borrowed(*final(c))
{ c.to_mut().push_str(rhs); }
#[verifier::external_body]
pub fn vx_str_to_owned(s: &str) -> (r: String) ensures r@ == s@ { s.to_owned() }
/// str slicing, range-safety only (char-boundary safety is a separate obligation, see DESIGN)
#[verifier::external_body]
pub fn vx_str_slice<'a>(s: &'a str, a: usize, b: usize) -> (r: &'a str)
    requires a <= b <= s.spec_bytes().len(),
    ensures r.spec_bytes() == s.spec_bytes().subrange(a as int, b as int)
{ &s[a..b] }

/// does byte sequence `b` start with `p`?
pub open spec fn starts_with_bytes(b: Seq<u8>, p: Seq<u8>) -> bool { p.len() <= b.len() && b.subrange(0, p.len() as int) =~= p }

/// C08 (first sentence): line n of the output starts with the applicable indent
pub open spec fn indented(ls: Seq<Cow<'_, str>>, o: &Options<'_>) -> bool {
    forall|n: int| 0 <= n < ls.len() ==> starts_with_bytes(cow_bytes(#[trigger] ls[n]), indent_of(o, n).spec_bytes())
}

#[verifier::external_body]
pub struct VxSplitStr<'a, 'b> { inner: std::str::Split<'a, &'b str> }
impl<'a, 'b> VxSplitStr<'a, 'b> {
    /// number of pieces still to come; `str::split` always yields at least one piece
    pub uninterp spec fn rest(&self) -> nat;
    pub uninterp spec fn total_pieces(&self) -> nat;
    #[verifier::external_body]
    pub fn new(s: &'a str, sep: &'b str) -> (r: Self) ensures r.rest() == r.total_pieces(), r.total_pieces() >= 1
    { VxSplitStr { inner: s.split(sep) } }
    #[verifier::external_body]
    pub fn next(&mut self) -> (r: Option<&'a str>)
        ensures final(self).total_pieces() == old(self).total_pieces(),
            match r { Some(_) => old(self).rest() > 0 && final(self).rest() == old(self).rest() - 1, None => old(self).rest() == 0 && final(self).rest() == 0 }
    { self.inner.next() }
}
#[verifier::external_body]
pub fn vx_str_trim_end_matches_char<'a>(s: &'a str, c: char) -> (r: &'a str) { s.trim_end_matches(c) }
#[verifier::external_body]
pub fn vx_line_ending_as_str(le: &LineEnding) -> (r: &'static str) { match le { LineEnding::CRLF => "\r\n", LineEnding::LF => "\n" } }

// ---------- callees of the slow path: contracts established elsewhere ----------
pub uninterp spec fn dw(s: Seq<char>) -> nat;                       // U3
#[verifier::external_body]
pub fn display_width(text: &str) -> (w: usize) ensures w == dw(text@) { unimplemented!() }

#[verifier::external_body] pub struct VxWordIter<'a> { x: &'a str }
impl<'a> VxWordIter<'a> { pub uninterp spec fn ws(&self) -> Seq<Word<'a>>; }

/// C11: the words found tile the line
#[verifier::external_body]
pub fn vx_find_words<'a>(sep: &WordSeparator, line: &'a str) -> (r: VxWordIter<'a>)
    ensures flat(r.ws()) == line.spec_bytes()
{ unimplemented!() }
/// C12: splitting keeps the tiling
#[verifier::external_body]
pub fn vx_split_words<'a>(words: VxWordIter<'a>, splitter: &WordSplitter) -> (r: VxWordIter<'a>)
    ensures flat(r.ws()) == flat(words.ws())
{ unimplemented!() }
/// C12: force-breaking keeps the tiling
#[verifier::external_body]
pub fn break_words<'a>(words: VxWordIter<'a>, line_width: usize) -> (r: Vec<Word<'a>>)
    ensures flat(r@) == flat(words.ws())
{ unimplemented!() }
#[verifier::external_body]
pub fn vx_collect_words<'a>(words: VxWordIter<'a>) -> (r: Vec<Word<'a>>)
    ensures r@ == words.ws()
{ unimplemented!() }
#[verifier::external_body]
pub fn vx_word_from<'a>(s: &'a str) -> (r: Word<'a>)
    ensures wbytes(r) == s.spec_bytes(), r.penalty.spec_bytes().len() == 0
{ unimplemented!() }

/// C02: the widths the algorithm must be given: the first entry belongs to the indent the first produced line carries
pub open spec fn expected_widths(o: &Options<'_>, first_overall: bool) -> Seq<usize> {
    let iw = if o.width >= dw(o.initial_indent@) { (o.width - dw(o.initial_indent@)) as usize } else { 0usize };
    let sw = if o.width >= dw(o.subsequent_indent@) { (o.width - dw(o.subsequent_indent@)) as usize } else { 0usize };
    seq![if first_overall { iw } else { sw }, sw]
}
pub uninterp spec fn first_overall_ghost() -> bool;

/// C06: the algorithm returns an ordered partition into non-empty runs (one empty run for no words)
#[verifier::external_body]
pub fn vx_wrap_algorithm_wrap<'a, 'b>(alg: &WrapAlgorithm, words: &'b [Word<'a>], line_widths: &'b [usize], Ghost(o): Ghost<&Options<'_>>, Ghost(first): Ghost<bool>) -> (r: Vec<&'b [Word<'a>]>)
    requires line_widths@ == expected_widths(o, first),
    ensures
        r@.len() >= 1,
        runs_concat(r@, r@.len() as int) == words@,
        words@.len() > 0 ==> forall|k: int| 0 <= k < r@.len() ==> (#[trigger] r@[k])@.len() > 0,
        words@.len() == 0 ==> r@.len() == 1,
{ unimplemented!() }
}
use specs::*;

pub(crate) fn wrap_single_line_slow_path<'a>(
    line: &'a str,
    options: &Options<'_>,
    lines: &mut Vec<Cow<'a, str>>,
)
    ensures
        // C08: every appended line starts with its indent
        indented(old(lines)@, options) ==> indented(final(lines)@, options),
        // only appends
        final(lines)@.len() >= old(lines)@.len() + 1,
        final(lines)@.subrange(0, old(lines)@.len() as int) =~= old(lines)@,
        // C08 + C01: every appended line is indent ++ slice ++ penalty for some partition of some tiling of `line`
        exists|runs: Seq<&[Word<'a>]>|
            #![trigger runs_concat(runs, runs.len() as int)]
            final(lines)@.len() == old(lines)@.len() + runs.len()
            && flat(runs_concat(runs, runs.len() as int)) == line.spec_bytes()
            && forall|k: int| 0 <= k < runs.len() ==>
                cow_bytes(#[trigger] final(lines)@[old(lines)@.len() + k]) == expected_line(line.spec_bytes(), options, old(lines)@.len() as int, runs, k),
{
    let initial_width = options
        .width
        .saturating_sub(display_width(options.initial_indent));
    let subsequent_width = options
        .width
        .saturating_sub(display_width(options.subsequent_indent));
    // Only the very first output line carries the initial indent.
    let first_width = if lines.is_empty() {
        initial_width
    } else {
        subsequent_width
    };
    let line_widths = [first_width, subsequent_width];

    let words = vx_find_words(&options.word_separator, line);
    let split_words = vx_split_words(words, &options.word_splitter);
    let broken_words = if options.break_words {
        let mut broken_words = break_words(split_words, line_widths[1]);
        if lines.is_empty() && !options.initial_indent.is_empty() {
            let ghost bw0 = broken_words@;
            let vx_w = vx_word_from("");
            broken_words.insert(0, vx_w);
            proof { reveal_strlit(""); assert(""@ =~= Seq::<char>::empty()); assert(encode_utf8(Seq::<char>::empty()) =~= Seq::<u8>::empty()); flat_insert0(bw0, vx_w); }
        }
        broken_words
    } else {
        vx_collect_words(split_words)
    };

    let wrapped_words = vx_wrap_algorithm_wrap(&options.wrap_algorithm, &broken_words, &line_widths, Ghost(options), Ghost(old(lines)@.len() == 0));
    let ghost runs = wrapped_words@;
    let ghost n0 = old(lines)@.len() as int;
    proof { str_len_bound(line); flat_len(broken_words@); }

    let mut idx = 0;
    let mut vx_it = wrapped_words.into_iter();
    let ghost mut k: int = 0;
    while let Some(words) = vx_it.next()
        invariant
            vx_it.obeys_prophetic_iter_laws(), vx_it.decrease() is Some,
            0 <= k <= runs.len(), vx_it.remaining() == runs.skip(k),
            n0 == old(lines)@.len(),
            lines@.len() == n0 + k,
            lines@.subrange(0, n0) =~= old(lines)@,
            idx == run_start(runs, k),
            idx <= total(broken_words@) == line.spec_bytes().len() <= isize::MAX,
            runs_concat(runs, runs.len() as int) == broken_words@,
            forall|t: int| 0 <= t < k ==> cow_bytes(#[trigger] lines@[n0 + t]) == expected_line(line.spec_bytes(), options, n0, runs, t),
        ensures k == runs.len(),
        decreases vx_it.decrease()->0
    {
        proof {
            assert(runs.skip(k)[0] == runs[k]);
            assert(words == runs[k]);
            assert(runs.skip(k).skip(1) =~= runs.skip(k + 1));
            run_start_step(runs, k);
            run_start_mono(runs, k + 1, runs.len() as int);
        }
        let last_word = match words.last() {
            None => {
                let indent = if lines.is_empty() {
                    options.initial_indent
                } else {
                    options.subsequent_indent
                };
                let ghost prev = lines@;
                lines.push(vx_cow_owned(vx_str_to_owned(indent)));
                proof { assert(lines@.subrange(0, n0) =~= prev.subrange(0, n0)); k = k + 1; }
                continue;
            }
            Some(word) => word,
        };

        let len = { let mut vx_acc = 0usize; for word in vx_fold: words.iter()
                invariant vx_fold.seq().len() == words@.len(), forall|t: int| 0 <= t < words@.len() ==> *(#[trigger] vx_fold.seq()[t]) == words@[t],
                    vx_acc == total(words@.take(vx_fold.index@ as int)), total(words@) <= isize::MAX,
            { proof { total_take_step(words@, vx_fold.index@ as int); total_take_mono(words@, vx_fold.index@ as int + 1); }
              vx_acc = vx_acc + (word.word.len() + word.whitespace.len()); }
            proof { assert(words@.take(words@.len() as int) =~= words@); }
            vx_acc }
            - last_word.whitespace.len();

        let mut result = if lines.is_empty() && !options.initial_indent.is_empty() {
            vx_cow_owned(vx_str_to_owned(options.initial_indent))
        } else if !lines.is_empty() && !options.subsequent_indent.is_empty() {
            vx_cow_owned(vx_str_to_owned(options.subsequent_indent))
        } else {
            vx_cow_from_str("")
        };

        vx_cow_add_assign(&mut result, vx_str_slice(line, idx, idx + len));

        if !last_word.penalty.is_empty() {
            vx_cow_to_mut_push_str(&mut result, last_word.penalty);
        }

        proof {
            empty_str_bytes(options.initial_indent); empty_str_bytes(options.subsequent_indent); empty_str_bytes(last_word.penalty);
            reveal_strlit(""); empty_str_bytes("");
            let ind = indent_of(options, n0 + k).spec_bytes();
            let a = run_start(runs, k) as int;
            let ln = total(words@) - words@.last().whitespace.spec_bytes().len();
            assert(*last_word == words@.last());
            assert(cow_bytes(result) =~= ind + line.spec_bytes().subrange(a, a + ln) + words@.last().penalty.spec_bytes());
        }
        let ghost prev = lines@;
        lines.push(result);
        idx += len + last_word.whitespace.len();
        proof { assert(lines@.subrange(0, n0) =~= prev.subrange(0, n0)); k = k + 1; }
    }
    proof {
        assert(flat(runs_concat(runs, runs.len() as int)) == line.spec_bytes());
        if indented(old(lines)@, options) {
            assert forall|n: int| 0 <= n < lines@.len() implies starts_with_bytes(cow_bytes(#[trigger] lines@[n]), indent_of(options, n).spec_bytes()) by {
                if n < n0 {
                    assert(lines@[n] == lines@.subrange(0, n0)[n]);
                } else {
                    let t = n - n0;
                    assert(cow_bytes(lines@[n0 + t]) == expected_line(line.spec_bytes(), options, n0, runs, t));
                    let ind = indent_of(options, n0 + t).spec_bytes();
                    let e = expected_line(line.spec_bytes(), options, n0, runs, t);
                    assert(e.subrange(0, ind.len() as int) =~= ind);
                }
            }
        }
    }
}

pub(crate) fn wrap_single_line<'a>(
    line: &'a str,
    options: &Options<'_>,
    lines: &mut Vec<Cow<'a, str>>,
)
    ensures
        indented(old(lines)@, options) ==> indented(final(lines)@, options),
        final(lines)@.len() >= old(lines)@.len() + 1,
        final(lines)@.subrange(0, old(lines)@.len() as int) =~= old(lines)@,
{
    let indent = if lines.is_empty() {
        options.initial_indent
    } else {
        options.subsequent_indent
    };
    if line.len() < options.width && indent.is_empty() {
        let ghost prev = lines@;
        lines.push(vx_cow_from_str(vx_str_trim_end_matches_char(line, ' ')));
        proof {
            empty_str_bytes(indent);
            assert(lines@.subrange(0, prev.len() as int) =~= prev);
            if indented(prev, options) {
                assert forall|n: int| 0 <= n < lines@.len() implies starts_with_bytes(cow_bytes(#[trigger] lines@[n]), indent_of(options, n).spec_bytes()) by {
                    if n < prev.len() { assert(lines@[n] == prev[n]); }
                    else { assert(indent_of(options, n).spec_bytes() =~= Seq::<u8>::empty()); assert(cow_bytes(lines@[n]).subrange(0, 0) =~= Seq::<u8>::empty()); }
                }
            }
        }
    } else {
        wrap_single_line_slow_path(line, options, lines)
    }
}

pub fn wrap<'a>(text: &'a str, options: Options<'_>) -> (lines: Vec<Cow<'a, str>>)
    ensures
        indented(lines@, &options),          // C08, first sentence
        lines@.len() >= 1,                   // C09: never fewer lines than paragraphs
{
    let line_ending_str = vx_line_ending_as_str(&options.line_ending);

    let mut lines = Vec::new();
    let mut vx_it = VxSplitStr::new(text, line_ending_str);
    while let Some(line) = vx_it.next()
        invariant
            indented(lines@, &options),
            lines@.len() >= vx_it.total_pieces() - vx_it.rest(),
            vx_it.total_pieces() >= 1,
        ensures
            indented(lines@, &options), lines@.len() >= 1,
        decreases vx_it.rest()
    {
        wrap_single_line(line, &options, &mut lines);
    }

    lines
}
} // verus!
fn main() {}
