use vstd::prelude::*;
use vstd::std_specs::ops::*;
use vstd::std_specs::cmp::*;
verus! {
pub mod specs {
use super::*;
pub assume_specification<'a, T: Copy>[ Option::<&'a T>::copied ](o: Option<&'a T>) -> (r: Option<T>)
    ensures r == match o { Some(x) => Some(*x), None => None };
pub broadcast axiom fn f64_add_total(a: f64, b: f64) ensures #[trigger] a.add_req(b);
pub broadcast axiom fn f64_sub_total(a: f64, b: f64) ensures #[trigger] a.sub_req(b);
pub broadcast axiom fn f64_mul_total(a: f64, b: f64) ensures #[trigger] a.mul_req(b);
pub broadcast axiom fn f64_div_total(a: f64, b: f64) ensures #[trigger] a.div_req(b);
pub axiom fn f64_det() ensures
    <f64 as AddSpec>::obeys_add_spec(), <f64 as SubSpec>::obeys_sub_spec(),
    <f64 as MulSpec>::obeys_mul_spec(), <f64 as DivSpec>::obeys_div_spec(),
    <f64 as PartialOrdSpec>::obeys_partial_cmp_spec();

pub open spec fn fadd(a: f64, b: f64) -> f64 { a.add_spec(b) }
pub open spec fn fsub(a: f64, b: f64) -> f64 { a.sub_spec(b) }
pub open spec fn fmul(a: f64, b: f64) -> f64 { a.mul_spec(b) }
pub open spec fn fdiv(a: f64, b: f64) -> f64 { a.div_spec(b) }
pub open spec fn fgt(a: f64, b: f64) -> bool { a.partial_cmp_spec(&b) == Some(core::cmp::Ordering::Greater) }
pub open spec fn flt(a: f64, b: f64) -> bool { a.partial_cmp_spec(&b) == Some(core::cmp::Ordering::Less) }

pub uninterp spec fn u2f(x: usize) -> f64;
#[verifier::external_body]
pub fn vx_usize_to_f64(x: usize) -> (r: f64) ensures r == u2f(x) { x as f64 }
pub uninterp spec fn fmax(a: f64, b: f64) -> f64;
#[verifier::external_body]
pub fn vx_f64_max(a: f64, b: f64) -> (r: f64) ensures r == fmax(a, b) { a.max(b) }
pub uninterp spec fn finf(a: f64) -> bool;
#[verifier::external_body]
pub fn vx_f64_is_infinite(a: f64) -> (r: bool) ensures r == finf(a) { a.is_infinite() }
#[verifier::external_body]
pub fn vx_vec_reverse<T>(v: &mut Vec<T>) ensures final(v)@ == old(v)@.reverse() { v.reverse() }

pub trait Fragment {
    spec fn width_spec(&self) -> f64;
    spec fn whitespace_width_spec(&self) -> f64;
    spec fn penalty_width_spec(&self) -> f64;
    fn width(&self) -> (r: f64) ensures r == self.width_spec();
    fn whitespace_width(&self) -> (r: f64) ensures r == self.whitespace_width_spec();
    fn penalty_width(&self) -> (r: f64) ensures r == self.penalty_width_spec();
}

pub open spec fn concat_lines<T>(lines: Seq<&[T]>) -> Seq<T>
    decreases lines.len()
{
    if lines.len() == 0 { Seq::empty() } else { concat_lines(lines.drop_last()) + lines.last()@ }
}
pub open spec fn concat_rev<T>(lines: Seq<&[T]>) -> Seq<T>
    decreases lines.len()
{
    if lines.len() == 0 { Seq::empty() } else { lines.last()@ + concat_rev(lines.drop_last()) }
}
pub proof fn concat_rev_reverse<T>(lines: Seq<&[T]>)
    ensures concat_lines(lines.reverse()) =~= concat_rev(lines)
    decreases lines.len()
{
    if lines.len() > 0 {
        let r = lines.reverse();
        // r = [last] + reverse(drop_last)
        assert(r =~= seq![lines.last()] + lines.drop_last().reverse());
        concat_rev_reverse(lines.drop_last());
        concat_lines_prepend(lines.last(), lines.drop_last().reverse());
    }
}
pub proof fn concat_lines_prepend<T>(l: &[T], rest: Seq<&[T]>)
    ensures concat_lines(seq![l] + rest) =~= l@ + concat_lines(rest)
    decreases rest.len()
{
    if rest.len() == 0 {
        assert(seq![l] + rest =~= seq![l]);
        assert(seq![l].drop_last() =~= Seq::<&[T]>::empty());
        assert(concat_lines(Seq::<&[T]>::empty()) =~= Seq::<T>::empty());
        assert(concat_lines(seq![l]) =~= concat_lines(seq![l].drop_last()) + seq![l].last()@);
    } else {
        assert((seq![l] + rest).drop_last() =~= seq![l] + rest.drop_last());
        assert((seq![l] + rest).last() == rest.last());
        concat_lines_prepend(l, rest.drop_last());
        assert(concat_lines(seq![l] + rest) =~= concat_lines(seq![l] + rest.drop_last()) + rest.last()@);
    }
}
pub broadcast proof fn concat_rev_push<T>(lines: Seq<&[T]>, l: &[T])
    ensures #[trigger] concat_rev(lines.push(l)) =~= l@ + concat_rev(lines)
{
    assert(lines.push(l).drop_last() =~= lines);
}

/// prefix sums of width+whitespace, folded left from 0.0
pub open spec fn psum<T: Fragment>(frags: Seq<T>, k: int) -> f64
    decreases k
{
    if k <= 0 { 0.0f64 } else { fadd(psum(frags, k - 1), fadd(frags[k - 1].width_spec(), frags[k - 1].whitespace_width_spec())) }
}

pub struct Penalties {
    pub nline_penalty: usize,
    pub overflow_penalty: usize,
    pub short_last_line_fraction: usize,
    pub short_last_line_penalty: usize,
    pub hyphen_penalty: usize,
}

/// the documented cost of a line holding fragments[i..j] whose target width is lw, given the best cost `base` of breaking before i
pub open spec fn line_cost<T: Fragment>(frags: Seq<T>, p: Penalties, base: f64, lw: f64, i: int, j: int) -> f64 {
    let target = fmax(lw, 1.0f64);
    let line_width = fadd(fsub(fsub(psum(frags, j), psum(frags, i)), frags[j - 1].whitespace_width_spec()), frags[j - 1].penalty_width_spec());
    let c0 = fadd(base, u2f(p.nline_penalty));
    let c1 = if fgt(line_width, target) {
        fadd(c0, fmul(fsub(line_width, target), u2f(p.overflow_penalty)))
    } else if j < frags.len() {
        fadd(c0, fmul(fsub(target, line_width), fsub(target, line_width)))
    } else if i + 1 == j && flt(line_width, fdiv(target, u2f(p.short_last_line_fraction))) {
        fadd(c0, u2f(p.short_last_line_penalty))
    } else { c0 };
    if fgt(frags[j - 1].penalty_width_spec(), 0.0f64) { fadd(c1, u2f(p.hyphen_penalty)) } else { c1 }
}

pub open spec fn lw_at(line_widths: Seq<f64>, k: int) -> f64 {
    if 0 <= k < line_widths.len() { line_widths[k] }
    else if line_widths.len() > 0 { line_widths[line_widths.len() - 1] }
    else { 0.0f64 }
}

/// back-pointer table as smawk produces it (assumption A6)
pub open spec fn minima_ok(m: Seq<(usize, f64)>) -> bool {
    m.len() >= 1 && m[0].0 == 0 && forall|j: int| 1 <= j < m.len() ==> (#[trigger] m[j]).0 < j
}

pub struct OverflowError;

#[verifier::external_body]
pub struct LineNumbers { x: usize }
impl LineNumbers {
    #[verifier::external_body]
    pub fn new(size: usize) -> Self { unimplemented!() }
    #[verifier::external_body]
    pub fn get<T>(&self, i: usize, minima: &[(usize, T)]) -> usize { unimplemented!() }
}

/// assumed contract of smawk::online_column_minima (A6)
#[verifier::external_body]
pub fn vx_online_column_minima<M: Fn(&[(usize, f64)], usize, usize) -> f64>(initial: f64, size: usize, matrix: M) -> (r: Vec<(usize, f64)>)
    requires
        size >= 1,
        forall|m: &[(usize, f64)], i: usize, j: usize| i < j < size && i < m@.len() && minima_ok(m@) ==> call_requires(matrix, (m, i, j)),
    ensures minima_ok(r@), r@.len() == size
{ unimplemented!() }
}
use specs::*;
broadcast use {specs::f64_add_total, specs::f64_sub_total, specs::f64_mul_total, specs::f64_div_total, specs::concat_rev_push};

pub fn wrap_optimal_fit<'a, 'b, T: Fragment>(
    fragments: &'a [T],
    line_widths: &'b [f64],
    penalties: &'b Penalties,
) -> (res: Result<Vec<&'a [T]>, OverflowError>)
    requires fragments@.len() < usize::MAX
    ensures
        res is Ok ==> ({
            let lines = res->Ok_0;
            &&& lines@.len() >= 1
            &&& concat_lines(lines@) =~= fragments@
            &&& fragments@.len() > 0 ==> forall|k: int| 0 <= k < lines@.len() ==> (#[trigger] lines@[k])@.len() > 0
            &&& fragments@.len() == 0 ==> lines@.len() == 1
        }),
{
    proof { f64_det(); }
    // The final line width is used for all remaining lines.
    let default_line_width = line_widths.last().copied().unwrap_or(0.0);
    let mut widths = Vec::with_capacity(fragments.len() + 1);
    let mut width = 0.0;
    widths.push(width);
    for fragment in it: fragments
        invariant
            <f64 as AddSpec>::obeys_add_spec(),
            widths@.len() == it.index@ + 1, it.index@ <= fragments@.len(), it.seq().len() == fragments@.len(),
            forall|k: int| 0 <= k < fragments@.len() ==> *(#[trigger] it.seq()[k]) == fragments@[k],
            width == psum(fragments@, it.index@ as int),
            forall|k: int| 0 <= k <= it.index@ ==> #[trigger] widths@[k] == psum(fragments@, k),
    {
        width = width + (fragment.width() + fragment.whitespace_width());
        widths.push(width);
    }

    let line_numbers = LineNumbers::new(fragments.len());

    let minima = vx_online_column_minima(0.0, widths.len(), |minima: &[(usize, f64)], i: usize, j: usize| -> (cost: f64)
        requires
            i < j < widths@.len(), i < minima@.len(), widths@.len() == fragments@.len() + 1,
            forall|k: int| 0 <= k < widths@.len() ==> #[trigger] widths@[k] == psum(fragments@, k),
            <f64 as AddSpec>::obeys_add_spec(), <f64 as SubSpec>::obeys_sub_spec(),
            <f64 as MulSpec>::obeys_mul_spec(), <f64 as DivSpec>::obeys_div_spec(),
            <f64 as PartialOrdSpec>::obeys_partial_cmp_spec(),
            default_line_width == lw_at(line_widths@, line_widths@.len() as int),
        ensures
            exists|ln: int| 0 <= ln && cost == line_cost(fragments@, *penalties, minima@[i as int].1, lw_at(line_widths@, ln), i as int, j as int),
    {
        // Line number for fragment `i`.
        let line_number = line_numbers.get(i, minima);
        let line_width = line_widths
            .get(line_number)
            .copied()
            .unwrap_or(default_line_width);
        let target_width = vx_f64_max(line_width, 1.0);

        // Compute the width of a line spanning fragments[i..j] in
        // constant time. We need to adjust widths[j] by subtracting
        // the whitespace of fragment[j-1] and then add the penalty.
        let line_width = widths[j] - widths[i] - fragments[j - 1].whitespace_width()
            + fragments[j - 1].penalty_width();

        // First, every extra line cost NLINE_PENALTY.
        let mut cost = minima[i].1 + vx_usize_to_f64(penalties.nline_penalty);

        // Next, we add a penalty depending on the line length.
        if line_width > target_width {
            // Lines that overflow get a hefty penalty.
            let overflow = line_width - target_width;
            cost = cost + (overflow * vx_usize_to_f64(penalties.overflow_penalty));
        } else if j < fragments.len() {
            let gap = target_width - line_width;
            cost = cost + (gap * gap);
        } else if i + 1 == j
            && line_width < target_width / vx_usize_to_f64(penalties.short_last_line_fraction)
        {
            cost = cost + (vx_usize_to_f64(penalties.short_last_line_penalty));
        }

        // Finally, we discourage hyphens.
        if fragments[j - 1].penalty_width() > 0.0 {
            cost = cost + (vx_usize_to_f64(penalties.hyphen_penalty));
        }
        proof { assert(cost == line_cost(fragments@, *penalties, minima@[i as int].1, lw_at(line_widths@, line_number as int), i as int, j as int)); }
        cost
    });

    for k in 0..minima.len()
        invariant true
    {
        let cost = minima[k].1;
        if vx_f64_is_infinite(cost) {
            return Err(OverflowError);
        }
    }

    let mut lines = Vec::with_capacity(line_numbers.get(fragments.len(), &minima));
    let mut pos = fragments.len();
    loop
        invariant_except_break
            pos <= fragments@.len(),
            pos == 0 ==> lines@.len() == 0,
            minima_ok(minima@), minima@.len() == fragments@.len() + 1,
            concat_rev(lines@) =~= fragments@.subrange(pos as int, fragments@.len() as int),
            forall|k: int| 0 <= k < lines@.len() ==> (#[trigger] lines@[k])@.len() > 0,
        ensures
            concat_rev(lines@) =~= fragments@,
            lines@.len() >= 1,
            fragments@.len() > 0 ==> forall|k: int| 0 <= k < lines@.len() ==> (#[trigger] lines@[k])@.len() > 0,
            fragments@.len() == 0 ==> lines@.len() == 1,
        decreases pos
    {
        let prev = minima[pos].0;
        lines.push(&fragments[prev..pos]);
        pos = prev;
        if pos == 0 {
            break;
        }
    }

    proof { concat_rev_reverse(lines@); }
    vx_vec_reverse(&mut lines);
    Ok(lines)
}

} // verus!
fn main() {}
