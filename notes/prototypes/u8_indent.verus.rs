use vstd::prelude::*;
use vstd::string::StringSliceAdditionalSpecFns;
verus! {
pub mod specs {
use super::*;

/// Unicode White_Space as decided by char::is_whitespace (left abstract: the property is parametric in it)
pub uninterp spec fn is_ws(c: char) -> bool;

/// pieces of `s` separated by `c` (like str::split): always at least one piece
pub open spec fn split_spec(s: Seq<char>, c: char) -> Seq<Seq<char>>
    decreases s.len()
{
    if s.len() == 0 { seq![Seq::<char>::empty()] }
    else {
        let rest = split_spec(s.skip(1), c);
        if s[0] == c { seq![Seq::<char>::empty()] + rest }
        else { seq![seq![s[0]] + rest[0]] + rest.skip(1) }
    }
}
/// like str::split_terminator: a trailing empty piece is dropped
pub open spec fn split_term_spec(s: Seq<char>, c: char) -> Seq<Seq<char>> {
    let p = split_spec(s, c);
    if p.last().len() == 0 { p.drop_last() } else { p }
}
pub open spec fn all_ws(l: Seq<char>) -> bool { forall|i: int| 0 <= i < l.len() ==> is_ws(#[trigger] l[i]) }

pub open spec fn trim_end_spec(p: Seq<char>) -> Seq<char>
    decreases p.len()
{
    if p.len() > 0 && is_ws(p.last()) { trim_end_spec(p.drop_last()) } else { p }
}

// ---- transparent wrappers around std calls Verus has no spec for; bodies are the std calls,
// ---- contracts are the documented std behaviour (assumed)
#[verifier::external_body]
pub struct VxSplitTerminatorEnumerate<'a> { inner: std::iter::Enumerate<std::str::SplitTerminator<'a, char>> }
impl<'a> VxSplitTerminatorEnumerate<'a> {
    pub uninterp spec fn rest(&self) -> Seq<Seq<char>>;
    pub uninterp spec fn idx(&self) -> nat;
    #[verifier::external_body]
    pub fn new(s: &'a str, c: char) -> (r: Self)
        ensures r.rest() == split_term_spec(s@, c), r.idx() == 0
    { VxSplitTerminatorEnumerate { inner: s.split_terminator(c).enumerate() } }
    #[verifier::external_body]
    pub fn next(&mut self) -> (r: Option<(usize, &'a str)>)
        ensures match r {
            Some((i, piece)) => old(self).rest().len() > 0 && piece@ == old(self).rest()[0] && i == old(self).idx()
                && final(self).rest() == old(self).rest().skip(1) && final(self).idx() == old(self).idx() + 1,
            None => old(self).rest().len() == 0 && final(self).rest() == old(self).rest() && final(self).idx() == old(self).idx(),
        }
    { self.inner.next() }
}
#[verifier::external_body]
pub fn vx_str_trim_end(s: &str) -> (r: &str) ensures r@ == trim_end_spec(s@) { s.trim_end() }
#[verifier::external_body]
pub fn vx_str_trim_is_empty(s: &str) -> (r: bool) ensures r == all_ws(s@) { s.trim().is_empty() }
#[verifier::external_body]
pub fn vx_str_ends_with_char(s: &str, c: char) -> (r: bool) ensures r == (s@.len() > 0 && s@.last() == c) { s.ends_with(c) }
#[verifier::external_body]
pub fn vx_string_with_capacity(n: usize) -> (r: String) ensures r@ == Seq::<char>::empty() { String::with_capacity(n) }

/// Rust guarantee: no allocation (hence no str) exceeds isize::MAX bytes
pub axiom fn str_len_bound(s: &str) ensures s.spec_bytes().len() <= isize::MAX;

/// C19: what indent must produce for one line
pub open spec fn indent_line(l: Seq<char>, p: Seq<char>) -> Seq<char> {
    if all_ws(l) { trim_end_spec(p) + l } else { p + l }
}
/// lines joined by '\n'
pub open spec fn join_nl(ls: Seq<Seq<char>>) -> Seq<char>
    decreases ls.len()
{
    if ls.len() == 0 { Seq::empty() } else if ls.len() == 1 { ls[0] } else { join_nl(ls.drop_last()) + seq!['\n'] + ls.last() }
}
pub open spec fn mapped(ls: Seq<Seq<char>>, p: Seq<char>) -> Seq<Seq<char>> {
    ls.map_values(|l: Seq<char>| indent_line(l, p))
}
pub proof fn join_step(ls: Seq<Seq<char>>, p: Seq<char>, k: int)
    requires 0 <= k < ls.len()
    ensures
        join_nl(mapped(ls.take(k + 1), p)) =~= (if k == 0 { indent_line(ls[k], p) } else { join_nl(mapped(ls.take(k), p)) + seq!['\n'] + indent_line(ls[k], p) }),
{
    let m1 = mapped(ls.take(k + 1), p);
    assert(m1.len() == k + 1);
    assert(m1.last() == indent_line(ls[k], p));
    assert(m1.drop_last() =~= mapped(ls.take(k), p));
    if k == 0 { assert(m1.len() == 1); }
}
pub open spec fn indent_spec(s: Seq<char>, p: Seq<char>) -> Seq<char> {
    let ls = split_term_spec(s, '\n');
    join_nl(mapped(ls, p)) + (if s.len() > 0 && s.last() == '\n' { seq!['\n'] } else { Seq::empty() })
}
}
use specs::*;

pub fn indent(s: &str, prefix: &str) -> (res: String)
    ensures res@ == indent_spec(s@, prefix@)
{
    proof { str_len_bound(s); }
    let mut result = vx_string_with_capacity(2 * s.len());
    let trimmed_prefix = vx_str_trim_end(prefix);
    let mut vx_it = VxSplitTerminatorEnumerate::new(s, '\n');
    let ghost ls = split_term_spec(s@, '\n');
    proof { assert(ls.take(ls.len() as int) =~= ls); assert(ls.take(0) =~= Seq::<Seq<char>>::empty()); assert(ls.skip(0) =~= ls); }
    while let Some((idx, line)) = vx_it.next()
        invariant
            vx_it.idx() + vx_it.rest().len() == ls.len(),
            vx_it.rest() == ls.skip(vx_it.idx() as int),
            trimmed_prefix@ == trim_end_spec(prefix@),
            result@ == join_nl(mapped(ls.take(vx_it.idx() as int), prefix@)),
            vx_it.idx() <= ls.len(),
            ls.take(ls.len() as int) =~= ls,
        ensures
            result@ == join_nl(mapped(ls, prefix@)),
        decreases vx_it.rest().len()
    {
        proof { join_step(ls, prefix@, idx as int); assert(ls.skip(idx as int)[0] == ls[idx as int]); }
        if idx > 0 {
            result.push('\n');
        }
        if vx_str_trim_is_empty(line) {
            result.push_str(trimmed_prefix);
        } else {
            result.push_str(prefix);
        }
        result.push_str(line);
    }
    if vx_str_ends_with_char(s, '\n') {
        // split_terminator will have eaten the final '\n'.
        result.push('\n');
    }
    result
}
} // verus!
fn main() {}
