use vstd::prelude::*;
use vstd::std_specs::ops::*;
use vstd::std_specs::cmp::*;
verus! {
pub mod specs {
use super::*;
pub assume_specification<'a, T: Copy>[ Option::<&'a T>::copied ](o: Option<&'a T>) -> (r: Option<T>)
    ensures r == match o { Some(x) => Some(*x), None => None };

// IEEE-754: f64 +,> are total deterministic functions of their operands (NaN payloads unobserved).
pub broadcast axiom fn f64_add_total(a: f64, b: f64) ensures #[trigger] a.add_req(b);
pub axiom fn f64_add_det() ensures <f64 as AddSpec>::obeys_add_spec();
pub axiom fn f64_cmp_det() ensures <f64 as PartialOrdSpec>::obeys_partial_cmp_spec();

pub open spec fn fadd(a: f64, b: f64) -> f64 { a.add_spec(b) }
pub open spec fn fgt(a: f64, b: f64) -> bool { a.partial_cmp_spec(&b) == Some(core::cmp::Ordering::Greater) }

pub trait Fragment {
    spec fn width_spec(&self) -> f64;
    spec fn whitespace_width_spec(&self) -> f64;
    spec fn penalty_width_spec(&self) -> f64;
    fn width(&self) -> (r: f64) ensures r == self.width_spec();
    fn whitespace_width(&self) -> (r: f64) ensures r == self.whitespace_width_spec();
    fn penalty_width(&self) -> (r: f64) ensures r == self.penalty_width_spec();
}

pub open spec fn concat_lines<T>(lines: Seq<&[T]>) -> Seq<T>
    decreases lines.len()
{
    if lines.len() == 0 { Seq::empty() } else { concat_lines(lines.drop_last()) + lines.last()@ }
}

pub broadcast proof fn concat_lines_push<T>(lines: Seq<&[T]>, l: &[T])
    ensures #[trigger] concat_lines(lines.push(l)) =~= concat_lines(lines) + l@
{
    assert(lines.push(l).drop_last() =~= lines);
}

/// width of the k-th line: k-th listed width, the last one repeats, 0.0 if the list is empty
pub open spec fn lw_at(line_widths: Seq<f64>, k: int) -> f64 {
    if 0 <= k < line_widths.len() { line_widths[k] }
    else if line_widths.len() > 0 { line_widths[line_widths.len() - 1] }
    else { 0.0f64 }
}

/// accumulated width (fragment widths plus inter-fragment whitespace) of frags[a..b], left fold from 0.0
pub open spec fn acc<T: Fragment>(frags: Seq<T>, a: int, b: int) -> f64
    decreases b - a
{
    if b <= a { 0.0f64 } else { fadd(acc(frags, a, b - 1), fadd(frags[b - 1].width_spec(), frags[b - 1].whitespace_width_spec())) }
}

/// "fragment i does not fit on a line that starts at a and has width lw"
pub open spec fn overflows<T: Fragment>(frags: Seq<T>, a: int, i: int, lw: f64) -> bool {
    fgt(fadd(fadd(acc(frags, a, i), frags[i].width_spec()), frags[i].penalty_width_spec()), lw)
}

/// breaks[k] = index of the first fragment of line k; breaks[m] = n
pub open spec fn greedy<T: Fragment>(frags: Seq<T>, line_widths: Seq<f64>, breaks: Seq<int>) -> bool {
    &&& breaks.len() >= 2
    &&& breaks[0] == 0
    &&& breaks[breaks.len() - 1] == frags.len()
    &&& forall|k: int| 0 <= k < breaks.len() - 1 ==> #[trigger] breaks[k] <= breaks[k + 1]
    // every non-first fragment of a line fitted when it was added
    &&& forall|k: int, i: int| 0 <= k < breaks.len() - 1 && breaks[k] < i < breaks[k + 1]
            ==> !#[trigger] overflows(frags, breaks[k], i, lw_at(line_widths, k))
    // the first fragment of every following line did not fit on the line before it
    &&& forall|k: int| 0 <= k < breaks.len() - 2
            ==> #[trigger] overflows(frags, breaks[k], breaks[k + 1], lw_at(line_widths, k))
}

/// lines are exactly the runs delimited by breaks
pub open spec fn lines_match<T>(lines: Seq<&[T]>, frags: Seq<T>, breaks: Seq<int>) -> bool {
    &&& breaks.len() == lines.len() + 1
    &&& forall|k: int| 0 <= k < lines.len() ==> 0 <= #[trigger] breaks[k] <= breaks[k + 1] <= frags.len()
    &&& forall|k: int| 0 <= k < lines.len() ==> (#[trigger] lines[k])@ =~= frags.subrange(breaks[k], breaks[k + 1])
}

pub open spec fn starts<T>(lines: Seq<&[T]>) -> Seq<int>
    decreases lines.len()
{
    if lines.len() == 0 { seq![0int] } else { starts(lines.drop_last()).push(starts(lines.drop_last()).last() + lines.last()@.len()) }
}

pub broadcast proof fn starts_push<T>(lines: Seq<&[T]>, l: &[T])
    ensures #[trigger] starts(lines.push(l)) =~= starts(lines).push(starts(lines).last() + l@.len())
{
    assert(lines.push(l).drop_last() =~= lines);
}
pub broadcast proof fn starts_len<T>(lines: Seq<&[T]>)
    ensures #[trigger] starts(lines).len() == lines.len() + 1
    decreases lines.len()
{
    if lines.len() > 0 { starts_len(lines.drop_last()); }
}
}
use specs::*;
broadcast use {specs::f64_add_total, specs::concat_lines_push, specs::starts_push, specs::starts_len};

pub fn wrap_first_fit<'a, T: Fragment>(fragments: &'a [T], line_widths: &[f64]) -> (lines: Vec<&'a [T]>)
    ensures
        // C06: ordered partition into non-empty runs; empty input -> exactly one empty line
        lines@.len() >= 1,
        concat_lines(lines@) =~= fragments@,
        fragments@.len() > 0 ==> forall|k: int| 0 <= k < lines@.len() ==> (#[trigger] lines@[k])@.len() > 0,
        fragments@.len() == 0 ==> lines@.len() == 1,
        // C07: greedy-maximal
        exists|breaks: Seq<int>| lines_match(lines@, fragments@, breaks) && greedy(fragments@, line_widths@, breaks),
{
    proof { f64_add_det(); f64_cmp_det(); }
    let ghost mut br: Seq<int> = seq![0int];
    // The final line width is used for all remaining lines.
    let default_line_width = line_widths.last().copied().unwrap_or(0.0);
    let mut lines = Vec::new();
    let mut start = 0;
    let mut width = 0.0;

    for idx in 0..fragments.len()
        invariant
            <f64 as AddSpec>::obeys_add_spec(), <f64 as PartialOrdSpec>::obeys_partial_cmp_spec(),
            default_line_width == lw_at(line_widths@, line_widths@.len() as int),
            start <= idx <= fragments@.len(),
            idx > 0 ==> start < idx,
            idx == 0 ==> lines@.len() == 0,
            concat_lines(lines@) =~= fragments@.subrange(0, start as int),
            forall|k: int| 0 <= k < lines@.len() ==> (#[trigger] lines@[k])@.len() > 0,
            lines_match(lines@, fragments@, br),
            br[0] == 0,
            br[br.len() - 1] == start,
            width == acc(fragments@, start as int, idx as int),
            forall|k: int, i: int| 0 <= k < lines@.len() && br[k] < i < br[k + 1]
                ==> !#[trigger] overflows(fragments@, br[k], i, lw_at(line_widths@, k)),
            forall|i: int| start < i < idx ==> !#[trigger] overflows(fragments@, start as int, i, lw_at(line_widths@, lines@.len() as int)),
            forall|k: int| 0 <= k < lines@.len()
                ==> #[trigger] overflows(fragments@, br[k], br[k + 1], lw_at(line_widths@, k)),
    {
        let fragment = &fragments[idx];
        let line_width = line_widths
            .get(lines.len())
            .copied()
            .unwrap_or(default_line_width);
        if width + fragment.width() + fragment.penalty_width() > line_width && idx > start {
            lines.push(&fragments[start..idx]);
            start = idx;
            width = 0.0;
            proof { br = br.push(idx as int); }
        }
        width = width + (fragment.width() + fragment.whitespace_width());
        proof { reveal_with_fuel(acc, 2); assert(acc(fragments@, start as int, idx as int + 1) == fadd(acc(fragments@, start as int, idx as int), fadd(fragments@[idx as int].width_spec(), fragments@[idx as int].whitespace_width_spec()))); }
    }
    lines.push(&fragments[start..]);
    proof { br = br.push(fragments@.len() as int);
        assert(lines_match(lines@, fragments@, br));
        assert(greedy(fragments@, line_widths@, br));
    }
    lines
}

} // verus!
fn main() {}
