use vstd::prelude::*;
use vstd::std_specs::ops::*;
verus! {
pub mod specs {
use super::*;
pub assume_specification<'a, T: Copy>[ Option::<&'a T>::copied ](o: Option<&'a T>) -> (r: Option<T>)
    ensures r == match o { Some(x) => Some(*x), None => None };
pub broadcast axiom fn f64_add_total(a: f64, b: f64) ensures #[trigger] a.add_req(b);
pub broadcast axiom fn f64_sub_total(a: f64, b: f64) ensures #[trigger] a.sub_req(b);
pub broadcast axiom fn f64_mul_total(a: f64, b: f64) ensures #[trigger] a.mul_req(b);
pub broadcast axiom fn f64_div_total(a: f64, b: f64) ensures #[trigger] a.div_req(b);

#[verifier::external_body]
pub fn usize_to_f64(x: usize) -> f64 { x as f64 }

pub open spec fn concat_lines<T>(lines: Seq<&[T]>) -> Seq<T>
    decreases lines.len()
{
    if lines.len() == 0 { Seq::empty() } else { concat_lines(lines.drop_last()) + lines.last()@ }
}
}
use specs::*;
broadcast use {specs::f64_add_total, specs::f64_sub_total, specs::f64_mul_total, specs::f64_div_total};

pub trait Fragment {
    fn width(&self) -> f64;
    fn whitespace_width(&self) -> f64;
    fn penalty_width(&self) -> f64;
}

pub struct Penalties {
    pub nline_penalty: usize,
    pub overflow_penalty: usize,
    pub short_last_line_fraction: usize,
    pub short_last_line_penalty: usize,
    pub hyphen_penalty: usize,
}

pub struct OverflowError;

#[verifier::external_body]
struct LineNumbers { x: usize }
impl LineNumbers {
    #[verifier::external_body]
    fn new(size: usize) -> Self { LineNumbers{x:0} }
    #[verifier::external_body]
    fn get<T>(&self, i: usize, minima: &[(usize, T)]) -> usize 
       { 0 }
}

pub open spec fn minima_ok(m: Seq<(usize, f64)>, n: int) -> bool {
    m.len() == n && forall|j: int| 1 <= j < n ==> (#[trigger] m[j]).0 < j
}

// assumed contract of the external crate smawk
#[verifier::external_body]
pub fn online_column_minima<M: Fn(&[(usize, f64)], usize, usize) -> f64>(initial: f64, size: usize, matrix: M) -> (r: Vec<(usize, f64)>)
    requires 
        size >= 1,
        forall|m: &[(usize, f64)], i: usize, j: usize| i < j < size && i < m@.len() && minima_ok(m@, m@.len() as int) ==> call_requires(matrix, (m, i, j)),
    ensures minima_ok(r@, size as int)
{ unimplemented!() }

pub fn wrap_optimal_fit<'a, 'b, T: Fragment>(
    fragments: &'a [T],
    line_widths: &'b [f64],
    penalties: &'b Penalties,
) -> (res: Result<Vec<&'a [T]>, OverflowError>)
    requires fragments@.len() < usize::MAX
    ensures res is Ok ==> ({ let lines = res->Ok_0; lines@.len() >= 1 && concat_lines(lines@.reverse()) =~= fragments@ })
{
    // The final line width is used for all remaining lines.
    let default_line_width = line_widths.last().copied().unwrap_or(0.0);
    let mut widths = Vec::with_capacity(fragments.len() + 1);
    let mut width = 0.0;
    widths.push(width);
    for fragment in it: fragments
        invariant widths@.len() == it.index@ + 1, it.index@ <= fragments@.len(), it.seq().len() == fragments@.len(),
    {
        width = width + (fragment.width() + fragment.whitespace_width());
        widths.push(width);
    }

    let line_numbers = LineNumbers::new(fragments.len());

    let minima = online_column_minima(0.0, widths.len(), |minima: &[(usize, f64)], i: usize, j: usize| -> (c: f64) 
        requires i < j < widths@.len(), i < minima@.len(), widths@.len() == fragments@.len() + 1
    {
        // Line number for fragment `i`.
        let line_number = line_numbers.get(i, minima);
        let line_width = line_widths
            .get(line_number)
            .copied()
            .unwrap_or(default_line_width);
        let target_width = if line_width > 1.0 { line_width } else { 1.0 };

        let line_width = widths[j] - widths[i] - fragments[j - 1].whitespace_width()
            + fragments[j - 1].penalty_width();

        let mut cost = minima[i].1 + usize_to_f64(penalties.nline_penalty);

        if line_width > target_width {
            let overflow = line_width - target_width;
            cost = cost + (overflow * usize_to_f64(penalties.overflow_penalty));
        } else if j < fragments.len() {
            let gap = target_width - line_width;
            cost = cost + (gap * gap);
        } else if i + 1 == j
            && line_width < target_width / usize_to_f64(penalties.short_last_line_fraction)
        {
            cost = cost + (usize_to_f64(penalties.short_last_line_penalty));
        }

        if fragments[j - 1].penalty_width() > 0.0 {
            cost = cost + (usize_to_f64(penalties.hyphen_penalty));
        }

        cost
    });

    let mut lines = Vec::with_capacity(line_numbers.get(fragments.len(), &minima));
    let mut pos = fragments.len();
    loop 
        invariant_except_break
            0 < pos <= fragments@.len() || (pos == 0 && lines@.len() == 0),
            minima_ok(minima@, fragments@.len() as int + 1),
        ensures true
        decreases pos
    {
        let prev = minima[pos].0;
        lines.push(&fragments[prev..pos]);
        pos = prev;
        if pos == 0 {
            break;
        }
    }

    Ok(lines)
}

} // verus!
fn main() {}
