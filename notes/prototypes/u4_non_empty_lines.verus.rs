use vstd::prelude::*;
use vstd::utf8::*;
use vstd::string::StringSliceAdditionalSpecFns;
verus! {
pub mod specs {
use super::*;

pub open spec fn has_byte(b: Seq<u8>, c: u8) -> bool { exists|k: int| 0 <= k < b.len() && b[k] == c }

/// index of the first occurrence of c (only meaningful if has_byte)
pub open spec fn first_idx(b: Seq<u8>, c: u8) -> int
    decreases b.len()
{
    if b.len() == 0 { 0 } else if b[0] == c { 0 } else { 1 + first_idx(b.skip(1), c) }
}

// std contract: str::find(char) with an ASCII needle = byte index of the first occurrence (A4)
#[verifier::external_body]
pub fn vx_str_find_char(s: &str, c: char) -> (r: Option<usize>)
    requires (c as u32) < 128,
    ensures
        match r {
            Some(i) => i < s.spec_bytes().len() && s.spec_bytes()[i as int] == c as u8
                && (forall|k: int| 0 <= k < i ==> s.spec_bytes()[k] != c as u8),
            None => forall|k: int| 0 <= k < s.spec_bytes().len() ==> s.spec_bytes()[k] != c as u8,
        }
{ s.find(c) }

// str slicing: panics exactly when an end is out of range or not on a char boundary (std docs); result is the byte sub-range
#[verifier::external_body]
pub fn vx_str_slice_from<'a>(s: &'a str, a: usize) -> (r: &'a str)
    requires a <= s.spec_bytes().len(), is_char_boundary(s.spec_bytes(), a as int),
    ensures r.spec_bytes() == s.spec_bytes().skip(a as int)
{ &s[a..] }
#[verifier::external_body]
pub fn vx_str_slice_to<'a>(s: &'a str, b: usize) -> (r: &'a str)
    requires b <= s.spec_bytes().len(), is_char_boundary(s.spec_bytes(), b as int),
    ensures r.spec_bytes() == s.spec_bytes().take(b as int)
{ &s[..b] }

#[verifier::external_body]
pub fn vx_mem_take_str<'a>(x: &mut &'a str) -> (r: &'a str)
    ensures r == *old(x), (*final(x)).spec_bytes().len() == 0
{ std::mem::take(x) }

pub proof fn boundary_after_ascii(b: Seq<u8>, i: int)
    requires valid_utf8(b), 0 <= i < b.len(), b[i] < 128,
    ensures is_char_boundary(b, i), is_char_boundary(b, i + 1),
{
    is_char_boundary_iff_is_leading_byte(b, i);
    assert(is_leading_byte_width_1(b[i]));
    if i + 1 == b.len() { is_char_boundary_start_end_of_seq(b); } else { boundary_step(b, i); }
}
pub proof fn boundary_step(b: Seq<u8>, i: int)
    requires valid_utf8(b), 0 <= i < b.len(), is_char_boundary(b, i), b[i] < 128,
    ensures is_char_boundary(b, i + 1)
    decreases i
{
    reveal_with_fuel(is_char_boundary, 2);
    reveal_with_fuel(valid_utf8, 2);
    if i == 0 {
        assert(length_of_first_scalar(b) == 1);
        assert(is_char_boundary(pop_first_scalar(b), 0));
    } else {
        let l = length_of_first_scalar(b);
        let rest = pop_first_scalar(b);
        assert(rest[i - l] == b[i]);
        boundary_step(rest, i - l);
    }
}

/// an "empty line" prefix: "\n" or "\r\n"
pub open spec fn empty_line_len(b: Seq<u8>) -> int {
    if b.len() >= 1 && b[0] == 10 { 1 } else if b.len() >= 2 && b[0] == 13 && b[1] == 10 { 2 } else { 0 }
}
/// what remains after dropping all leading empty lines
pub open spec fn drop_empty_lines(b: Seq<u8>) -> Seq<u8>
    decreases b.len()
{
    if empty_line_len(b) > 0 { drop_empty_lines(b.skip(empty_line_len(b))) } else { b }
}
}
use specs::*;

#[derive(Clone, Copy, PartialEq, Eq)]
pub enum LineEnding { CRLF, LF }

pub(crate) struct NonEmptyLines<'a>(pub &'a str);

impl<'a> NonEmptyLines<'a> {
    fn next(&mut self) -> (r: Option<(&'a str, Option<LineEnding>)>)
        ensures ({
            let b = drop_empty_lines(old(self).0.spec_bytes());
            match r {
                None => b.len() == 0 && final(self).0.spec_bytes().len() == 0,
                Some((line, None)) => b.len() > 0 && !has_byte(b, 10) && line.spec_bytes() == b && final(self).0.spec_bytes().len() == 0,
                Some((line, Some(e))) => has_byte(b, 10) && ({
                    let lf = first_idx(b, 10);
                    &&& lf >= 1
                    &&& final(self).0.spec_bytes() == b.skip(lf + 1)
                    &&& line.spec_bytes().len() > 0
                    &&& (e == LineEnding::CRLF <==> b[lf - 1] == 13)
                    &&& line.spec_bytes() == (if b[lf - 1] == 13 { b.take(lf - 1) } else { b.take(lf) })
                }),
            }
        })
    {
        while let Some(lf) = vx_str_find_char(self.0, '\n')
            invariant
                drop_empty_lines(self.0.spec_bytes()) == drop_empty_lines(old(self).0.spec_bytes()),
            ensures
                drop_empty_lines(self.0.spec_bytes()) == drop_empty_lines(old(self).0.spec_bytes()),
                !has_byte(self.0.spec_bytes(), 10),
            decreases self.0.spec_bytes().len()
        {
            let ghost b = self.0.spec_bytes();
            proof {
                encode_utf8_valid_utf8(self.0@);
                boundary_after_ascii(b, lf as int);
                is_char_boundary_start_end_of_seq(b);
                first_idx_is(b, 10, lf as int);
            }
            if lf == 0 || (lf == 1 && self.0.as_bytes()[lf - 1] == b'\r') {
                self.0 = vx_str_slice_from(self.0, lf + 1);
                proof { assert(b.subrange(lf as int + 1, b.len() as int) =~= b.skip(lf as int + 1)); assert(empty_line_len(b) == lf + 1); assert(self.0.spec_bytes() =~= b.skip(empty_line_len(b))); }
                continue;
            }
            proof {
                assert(empty_line_len(b) == 0);
                assert(drop_empty_lines(b) == b);
                if b[lf as int - 1] == 13 { boundary_after_ascii(b, lf as int - 1); }
                assert(b.subrange(0, lf as int - 1) =~= b.take(lf as int - 1));
                assert(b.subrange(0, lf as int) =~= b.take(lf as int));
                assert(b.subrange(lf as int + 1, b.len() as int) =~= b.skip(lf as int + 1));
            }
            let trimmed = match self.0.as_bytes()[lf - 1] {
                b'\r' => (vx_str_slice_to(self.0, lf - 1), Some(LineEnding::CRLF)),
                _ => (vx_str_slice_to(self.0, lf), Some(LineEnding::LF)),
            };
            self.0 = vx_str_slice_from(self.0, lf + 1);
            return Some(trimmed);
        }
        proof { no_nl_no_empty(self.0.spec_bytes()); }
        if self.0.is_empty() {
            None
        } else {
            let line = vx_mem_take_str(&mut self.0);
            Some((line, None))
        }
    }
}

pub proof fn first_idx_is(b: Seq<u8>, c: u8, i: int)
    requires 0 <= i < b.len(), b[i] == c, forall|k: int| 0 <= k < i ==> b[k] != c
    ensures first_idx(b, c) == i, has_byte(b, c)
    decreases i
{
    if i > 0 { first_idx_is(b.skip(1), c, i - 1); }
}
pub proof fn no_nl_no_empty(b: Seq<u8>)
    requires !has_byte(b, 10)
    ensures drop_empty_lines(b) == b
{
    if b.len() >= 1 && b[0] == 10 { assert(has_byte(b, 10)); }
    if b.len() >= 2 && b[1] == 10 { assert(has_byte(b, 10)); }
}
} // verus!
fn main() {}
