use vstd::prelude::*;
use vstd::std_specs::iter::IteratorSpec;
use vstd::utf8::*;
use vstd::string::StringSliceAdditionalSpecFns;
verus! {
pub mod specs {
use super::*;
pub open spec fn is_final(c: char) -> bool { '\x40' <= c && c <= '\x7e' }

/// number of chars consumed after "ESC [" : up to and including the first final byte (or everything)
pub open spec fn csi_len(t: Seq<char>) -> int
    decreases t.len()
{
    if t.len() == 0 { 0 } else if is_final(t[0]) { 1 } else { 1 + csi_len(t.skip(1)) }
}

/// number of chars consumed after "ESC ]" : up to and including BEL or ESC \ (or everything)
pub open spec fn osc_len(t: Seq<char>, last: char) -> int
    decreases t.len()
{
    if t.len() == 0 { 0 }
    else if t[0] == '\x07' || (t[0] == '\\' && last == '\x1b') { 1 }
    else { 1 + osc_len(t.skip(1), t[0]) }
}

/// number of chars the skipper consumes from the text following an ESC
pub open spec fn skip_len(s: Seq<char>) -> int {
    if s.len() == 0 { 0 }
    else if s[0] == '[' { 1 + csi_len(s.skip(1)) }
    else if s[0] == ']' { 1 + osc_len(s.skip(1), ']') }
    else { 1 }
}

pub proof fn csi_len_bounds(t: Seq<char>)
    ensures 0 <= csi_len(t) <= t.len()
    decreases t.len()
{ if t.len() > 0 && !is_final(t[0]) { csi_len_bounds(t.skip(1)); } }

pub proof fn osc_len_bounds(t: Seq<char>, last: char)
    ensures 0 <= osc_len(t, last) <= t.len()
    decreases t.len()
{ if t.len() > 0 && !(t[0] == '\x07' || (t[0] == '\\' && last == '\x1b')) { osc_len_bounds(t.skip(1), t[0]); } }

/// column width of one char: the contract of `ch_width` (both feature sets); discharged for every
/// `char` by the loop-free Kani harness K1 (and exhaustively by enumeration), assumed here.
pub uninterp spec fn chw(c: char) -> nat;
pub axiom fn chw_le_len_utf8(c: char) ensures chw(c) <= encode_scalar(c as u32).len();

/// code-level meaning of display_width over the char sequence
pub open spec fn dw(s: Seq<char>) -> nat
    decreases s.len()
{
    if s.len() == 0 { 0 }
    else if s[0] == '\x1b' {
        let r = s.skip(1);
        let k = if 0 <= skip_len(r) <= r.len() { skip_len(r) } else { 0 };
        dw(r.skip(k))
    } else { chw(s[0]) + dw(s.skip(1)) }
}

/// Rust guarantee: no allocation (hence no str) exceeds isize::MAX bytes
pub axiom fn str_len_bound(s: &str) ensures s.spec_bytes().len() <= isize::MAX;

pub open spec fn blen(s: Seq<char>) -> nat { encode_utf8(s).len() }

pub proof fn blen_split(s: Seq<char>, k: int)
    requires 0 <= k <= s.len()
    ensures blen(s) == blen(s.take(k)) + blen(s.skip(k))
{
    assert(s =~= s.take(k) + s.skip(k));
    encode_utf8_concat(s.take(k), s.skip(k));
}

pub proof fn blen_one(c: char)
    ensures blen(seq![c]) == encode_scalar(c as u32).len()
{
    encode_utf8_push(Seq::<char>::empty(), c);
    assert(Seq::<char>::empty().push(c) =~= seq![c]);
    reveal_with_fuel(encode_utf8, 2);
    assert(encode_utf8(Seq::<char>::empty()) =~= Seq::<u8>::empty());
}

/// C10 (for every text whatsoever): the display width never exceeds the byte length
pub proof fn dw_le_blen(s: Seq<char>)
    ensures dw(s) <= blen(s)
    decreases s.len()
{
    if s.len() > 0 {
        blen_split(s, 1);
        assert(s.take(1) =~= seq![s[0]]);
        blen_one(s[0]);
        if s[0] == '\x1b' {
            let r = s.skip(1);
            skip_len_bounds(r);
            let k = skip_len(r);
            blen_split(r, k);
            dw_le_blen(r.skip(k));
        } else {
            chw_le_len_utf8(s[0]);
            dw_le_blen(s.skip(1));
        }
    }
}


// ======================= C10, property level =======================
// A text is a sequence of chunks: a plain (non-ESC) character, or ESC followed by a well-formed
// CSI body "[ params final" or OSC body "] body (BEL | ESC \)", exactly as the property describes them.
pub enum Chunk { Plain(char), Seq(Seq<char>) }

pub open spec fn is_csi_body(t: Seq<char>) -> bool {
    t.len() >= 2 && t[0] == '[' && is_final(t.last())
    && forall|i: int| 1 <= i < t.len() - 1 ==> !is_final(#[trigger] t[i])
}
pub open spec fn is_osc_body(t: Seq<char>) -> bool {
    t.len() >= 2 && t[0] == ']'
    && ( (t.last() == '\x07' && forall|i: int| 1 <= i < t.len() - 1 ==> (#[trigger] t[i]) != '\x07' && t[i] != '\x1b')
      || (t.len() >= 3 && t.last() == '\\' && t[t.len() - 2] == '\x1b'
          && forall|i: int| 1 <= i < t.len() - 2 ==> (#[trigger] t[i]) != '\x07' && t[i] != '\x1b') )
}
pub open spec fn chunk_ok(c: Chunk) -> bool {
    match c { Chunk::Plain(ch) => ch != '\x1b', Chunk::Seq(t) => is_csi_body(t) || is_osc_body(t) }
}
pub open spec fn chunk_text(c: Chunk) -> Seq<char> {
    match c { Chunk::Plain(ch) => seq![ch], Chunk::Seq(t) => seq!['\x1b'] + t }
}
pub open spec fn text_of(cs: Seq<Chunk>) -> Seq<char>
    decreases cs.len()
{ if cs.len() == 0 { Seq::empty() } else { chunk_text(cs[0]) + text_of(cs.skip(1)) } }
/// the text with the escape sequences removed
pub open spec fn stripped(cs: Seq<Chunk>) -> Seq<char>
    decreases cs.len()
{ if cs.len() == 0 { Seq::empty() } else { (match cs[0] { Chunk::Plain(ch) => seq![ch], Chunk::Seq(_) => Seq::empty() }) + stripped(cs.skip(1)) } }
pub open spec fn width_sum(s: Seq<char>) -> nat
    decreases s.len()
{ if s.len() == 0 { 0 } else { chw(s[0]) + width_sum(s.skip(1)) } }

pub proof fn csi_len_of_body(t: Seq<char>, k: int, rest: Seq<char>)
    requires 1 <= k <= t.len() - 1, is_csi_body(t)
    ensures csi_len(t.skip(k) + rest) == t.len() - k
    decreases t.len() - k
{
    let u = t.skip(k) + rest;
    assert(u[0] == t[k]);
    if k == t.len() - 1 { assert(is_final(u[0])); }
    else {
        assert(!is_final(t[k]));
        assert(u.skip(1) =~= t.skip(k + 1) + rest);
        csi_len_of_body(t, k + 1, rest);
    }
}
pub proof fn osc_len_of_body(t: Seq<char>, k: int, rest: Seq<char>, last: char)
    requires 1 <= k <= t.len() - 1, is_osc_body(t), last == t[k - 1],
    ensures osc_len(t.skip(k) + rest, last) == t.len() - k
    decreases t.len() - k
{
    let u = t.skip(k) + rest;
    assert(u[0] == t[k]);
    if k == t.len() - 1 {
        // the terminator's last char: BEL, or '\\' preceded by ESC
    } else {
        assert(u.skip(1) =~= t.skip(k + 1) + rest);
        osc_len_of_body(t, k + 1, rest, t[k]);
        // t[k] is not a terminator here
        if t.last() == '\x07' && (forall|i: int| 1 <= i < t.len() - 1 ==> (#[trigger] t[i]) != '\x07' && t[i] != '\x1b') {
            assert(t[k] != '\x07'); assert(t[k] != '\x1b');
            if k >= 2 { assert(t[k - 1] != '\x1b'); }
        } else {
            if k < t.len() - 2 { assert(t[k] != '\x07'); if k >= 2 { assert(t[k - 1] != '\x1b'); } }
            else { assert(t[k] == '\x1b'); if k >= 2 { assert(t[k-1] != '\x1b'); } }
        }
    }
}
pub proof fn skip_len_of_seq(t: Seq<char>, rest: Seq<char>)
    requires is_csi_body(t) || is_osc_body(t)
    ensures skip_len(t + rest) == t.len()
{
    let u = t + rest;
    assert(u[0] == t[0]);
    assert(u.skip(1) =~= t.skip(1) + rest);
    if is_csi_body(t) { csi_len_of_body(t, 1, rest); } else { osc_len_of_body(t, 1, rest, ']'); }
}
pub proof fn width_sum_concat(a: Seq<char>, b: Seq<char>)
    ensures width_sum(a + b) == width_sum(a) + width_sum(b)
    decreases a.len()
{
    if a.len() == 0 { assert(a + b =~= b); }
    else { assert((a + b).skip(1) =~= a.skip(1) + b); width_sum_concat(a.skip(1), b); }
}
/// C10: for a text all of whose ESC characters begin well-formed sequences, display_width is the sum of
/// the character widths of what remains after removing those sequences
pub proof fn dw_is_width_sum_of_stripped(cs: Seq<Chunk>)
    requires forall|i: int| 0 <= i < cs.len() ==> chunk_ok(#[trigger] cs[i])
    ensures dw(text_of(cs)) == width_sum(stripped(cs))
    decreases cs.len()
{
    if cs.len() > 0 {
        let rest = text_of(cs.skip(1));
        assert(forall|i: int| 0 <= i < cs.skip(1).len() ==> chunk_ok(#[trigger] cs.skip(1)[i])) by {
            assert forall|i: int| 0 <= i < cs.skip(1).len() implies chunk_ok(#[trigger] cs.skip(1)[i]) by { assert(cs.skip(1)[i] == cs[i + 1]); }
        }
        dw_is_width_sum_of_stripped(cs.skip(1));
        assert(chunk_ok(cs[0]));
        match cs[0] {
            Chunk::Plain(ch) => {
                let s = text_of(cs);
                assert(s[0] == ch);
                assert(s.skip(1) =~= rest);
                assert(stripped(cs).skip(1) =~= stripped(cs.skip(1)));
            },
            Chunk::Seq(t) => {
                let s = text_of(cs);
                assert(s[0] == '\x1b');
                let r = s.skip(1);
                assert(r =~= t + rest);
                skip_len_of_seq(t, rest);
                assert(r.skip(t.len() as int) =~= rest);
                assert(stripped(cs) =~= stripped(cs.skip(1)));
            },
        }
    }
}
/// additivity over concatenation when the first part is ESC-free
pub proof fn dw_additive_esc_free(a: Seq<char>, b: Seq<char>)
    requires forall|i: int| 0 <= i < a.len() ==> (#[trigger] a[i]) != '\x1b'
    ensures dw(a + b) == dw(a) + dw(b)
    decreases a.len()
{
    if a.len() == 0 { assert(a + b =~= b); }
    else {
        assert((a + b)[0] == a[0]);
        assert((a + b).skip(1) =~= a.skip(1) + b);
        assert forall|i: int| 0 <= i < a.skip(1).len() implies (#[trigger] a.skip(1)[i]) != '\x1b' by { assert(a.skip(1)[i] == a[i + 1]); }
        dw_additive_esc_free(a.skip(1), b);
    }
}

pub proof fn skip_len_bounds(s: Seq<char>)
    ensures 0 <= skip_len(s) <= s.len()
{
    if s.len() > 0 { csi_len_bounds(s.skip(1)); osc_len_bounds(s.skip(1), ']'); }
}
}
use specs::*;

const CSI: (char, char) = ('\x1b', '[');

pub(crate) fn skip_ansi_escape_sequence<I: Iterator<Item = char>>(ch: char, chars: &mut I) -> (r: bool)
    requires (*old(chars)).obeys_prophetic_iter_laws(), (*old(chars)).decrease() is Some,
    ensures r == (ch == '\x1b'),
            (*final(chars)).obeys_prophetic_iter_laws(),
            (*final(chars)).decrease() is Some,
            !r ==> (*final(chars)).remaining() == (*old(chars)).remaining(),
            r ==> (*final(chars)).remaining() == (*old(chars)).remaining().skip(skip_len((*old(chars)).remaining())),
            !r ==> (*final(chars)).decrease() == (*old(chars)).decrease(),
{
    let ghost r0 = chars.remaining();
    if ch != CSI.0 {
        return false; // Nothing to skip here.
    }

    let next = chars.next();
    if next == Some(CSI.1) {
        let ghost r1 = chars.remaining();
        let ghost mut k: int = 0;
        proof { csi_len_bounds(r1); assert(r1 =~= r0.skip(1)); assert(r1.skip(0) =~= r1); }
        while let Some(ch) = chars.next()
            invariant_except_break
                chars.obeys_prophetic_iter_laws(), chars.decrease() is Some,
                0 <= k <= r1.len(), chars.remaining() == r1.skip(k), csi_len(r1) == k + csi_len(r1.skip(k)),
            ensures
                chars.obeys_prophetic_iter_laws(), chars.decrease() is Some,
                chars.remaining() == r1.skip(csi_len(r1)),
            decreases chars.decrease()->0
        {
            proof { assert(r1.skip(k).skip(1) =~= r1.skip(k + 1)); }
            if '\x40' <= ch && ch <= '\x7e' {
                break;
            }
            proof { k = k + 1; }
        }
    } else if next == Some(']') {
        let ghost r1 = chars.remaining();
        let ghost mut k: int = 0;
        let mut last = ']';
        proof { osc_len_bounds(r1, ']'); assert(r1 =~= r0.skip(1)); assert(r1.skip(0) =~= r1); }
        while let Some(new) = chars.next()
            invariant_except_break
                chars.obeys_prophetic_iter_laws(), chars.decrease() is Some,
                0 <= k <= r1.len(), chars.remaining() == r1.skip(k), osc_len(r1, ']') == k + osc_len(r1.skip(k), last),
            ensures
                chars.obeys_prophetic_iter_laws(), chars.decrease() is Some,
                chars.remaining() == r1.skip(osc_len(r1, ']')),
            decreases chars.decrease()->0
        {
            proof { assert(r1.skip(k).skip(1) =~= r1.skip(k + 1)); }
            if new == '\x07' || (new == '\\' && last == CSI.0) {
                break;
            }
            last = new;
            proof { k = k + 1; }
        }
    }
    proof { skip_len_bounds(r0); }
    true // Indicate that some chars were skipped.
}

#[verifier::external_body]
fn ch_width(ch: char) -> (r: usize)
    ensures r == chw(ch)
{ unimplemented!() }

#[verifier::exec_allows_no_decreases_clause]
pub fn display_width(text: &str) -> (width: usize)
    ensures width == dw(text@), width <= text.spec_bytes().len(),
{
    let mut chars = text.chars();
    let mut width = 0;
    proof { dw_le_blen(text@); str_len_bound(text); }
    while let Some(ch) = chars.next()
        invariant
            chars.obeys_prophetic_iter_laws(), chars.decrease() is Some,
            width + dw(chars.remaining()) == dw(text@),
            dw(text@) <= blen(text@) == text.spec_bytes().len() <= usize::MAX,
        ensures
            width == dw(text@),
    {
        let ghost rem = chars.remaining();
        proof { skip_len_bounds(rem); }
        if skip_ansi_escape_sequence(ch, &mut chars) {
            continue;
        }
        width += ch_width(ch);
    }
    width
}

} // verus!
fn main() {}
