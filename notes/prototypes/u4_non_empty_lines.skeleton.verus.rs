use vstd::prelude::*;
use vstd::string::StringSliceAdditionalSpecFns;
verus! {
pub mod specs {
use super::*;
pub open spec fn first_idx(b: Seq<u8>, c: u8) -> Option<int>
    decreases b.len()
{
    if b.len() == 0 { None } else if b[0] == c { Some(0int) } else {
        match first_idx(b.skip(1), c) { Some(i) => Some(i + 1), None => None }
    }
}
// std contract: str::find(char) for an ASCII needle returns the byte index of the first occurrence
#[verifier::external_body]
pub fn str_find_char(s: &str, c: char) -> (r: Option<usize>)
    requires (c as u32) < 128,
    ensures
        match r {
            Some(i) => i < s.spec_bytes().len() && s.spec_bytes()[i as int] == c as u8
                && (forall|k: int| 0 <= k < i ==> s.spec_bytes()[k] != c as u8),
            None => forall|k: int| 0 <= k < s.spec_bytes().len() ==> s.spec_bytes()[k] != c as u8,
        }
{ s.find(c) }
}
pub assume_specification<T: Default>[ std::mem::take::<T> ](x: &mut T) -> (r: T)
    ensures r == *old(x);
use specs::*;

#[derive(Clone, Copy, PartialEq, Eq)]
pub enum LineEnding { CRLF, LF }

pub(crate) struct NonEmptyLines<'a>(pub &'a str);

impl<'a> NonEmptyLines<'a> {
    fn next(&mut self) -> Option<(&'a str, Option<LineEnding>)> {
        while let Some(lf) = str_find_char(self.0, '\n')
            decreases self.0.spec_bytes().len()
        {
            if lf == 0 || (lf == 1 && self.0.as_bytes()[lf - 1] == b'\r') {
                self.0 = &self.0[(lf + 1)..];
                continue;
            }
            let trimmed = match self.0.as_bytes()[lf - 1] {
                b'\r' => (&self.0[..(lf - 1)], Some(LineEnding::CRLF)),
                _ => (&self.0[..lf], Some(LineEnding::LF)),
            };
            self.0 = &self.0[(lf + 1)..];
            return Some(trimmed);
        }
        if self.0.is_empty() {
            None
        } else {
            let line = std::mem::take(&mut self.0);
            Some((line, None))
        }
    }
}
} // verus!
fn main() {}
