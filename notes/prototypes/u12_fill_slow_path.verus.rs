use vstd::prelude::*;
use std::borrow::Cow;
verus! {
pub mod specs {
use super::*;
#[verifier::external_body] pub struct WordSeparator { x: usize }
#[verifier::external_body] pub struct WordSplitter { x: usize }
#[verifier::external_body] pub struct WrapAlgorithm { x: usize }
#[derive(Clone, Copy)] pub enum LineEnding { CRLF, LF }
pub struct Options<'a> {
    pub width: usize,
    pub line_ending: LineEnding,
    pub initial_indent: &'a str,
    pub subsequent_indent: &'a str,
    pub break_words: bool,
    pub wrap_algorithm: WrapAlgorithm,
    pub word_separator: WordSeparator,
    pub word_splitter: WordSplitter,
}
pub open spec fn le_str(le: LineEnding) -> Seq<char> { match le { LineEnding::CRLF => seq!['\r', '\n'], LineEnding::LF => seq!['\n'] } }
#[verifier::external_body]
pub fn vx_line_ending_as_str(le: &LineEnding) -> (r: &'static str) ensures r@ == le_str(*le) { match le { LineEnding::CRLF => "\r\n", LineEnding::LF => "\n" } }

pub uninterp spec fn cow_view(c: Cow<'_, str>) -> Seq<char>;
#[verifier::external_body]
pub fn vx_cow_as_str<'b>(c: &'b Cow<'_, str>) -> (r: &'b str) ensures r@ == cow_view(*c) { c }
#[verifier::external_body]
pub fn vx_string_with_capacity(n: usize) -> (r: String) ensures r@ == Seq::<char>::empty() { String::with_capacity(n) }

pub uninterp spec fn wrap_spec(text: Seq<char>, o: Options<'_>) -> Seq<Seq<char>>;
#[verifier::external_body]
pub fn wrap<'a>(text: &'a str, options: Options<'_>) -> (r: Vec<Cow<'a, str>>)
    ensures r@.len() == wrap_spec(text@, options).len(),
        forall|i: int| 0 <= i < r@.len() ==> cow_view(#[trigger] r@[i]) == wrap_spec(text@, options)[i]
{ unimplemented!() }

/// C09: lines joined by the configured line ending
pub open spec fn join(ls: Seq<Seq<char>>, sep: Seq<char>) -> Seq<char>
    decreases ls.len()
{ if ls.len() == 0 { Seq::empty() } else if ls.len() == 1 { ls[0] } else { join(ls.drop_last(), sep) + sep + ls.last() } }

pub proof fn join_step(ls: Seq<Seq<char>>, sep: Seq<char>, k: int)
    requires 0 <= k < ls.len()
    ensures join(ls.take(k + 1), sep) =~= (if k == 0 { ls[k] } else { join(ls.take(k), sep) + sep + ls[k] })
{
    assert(ls.take(k + 1).drop_last() =~= ls.take(k));
    assert(ls.take(k + 1).last() == ls[k]);
}
}
use specs::*;

pub(crate) fn fill_slow_path(text: &str, options: Options<'_>) -> (result: String)
    ensures result@ == join(wrap_spec(text@, options), le_str(options.line_ending))
{
    // This will avoid reallocation in simple cases (no
    // indentation, no hyphenation).
    let mut result = vx_string_with_capacity(text.len());

    let line_ending_str = vx_line_ending_as_str(&options.line_ending);
    let ghost ls = wrap_spec(text@, options);
    let vx_lines = wrap(text, options);
    proof { assert(ls.take(0) =~= Seq::<Seq<char>>::empty()); }
    for i in 0..vx_lines.len()
        invariant
            vx_lines@.len() == ls.len(),
            forall|t: int| 0 <= t < vx_lines@.len() ==> cow_view(#[trigger] vx_lines@[t]) == ls[t],
            line_ending_str@ == le_str(options.line_ending),
            result@ == join(ls.take(i as int), line_ending_str@),
    {
        let line = &vx_lines[i];
        proof { join_step(ls, line_ending_str@, i as int); }
        if i > 0 {
            result.push_str(line_ending_str);
        }
        result.push_str(vx_cow_as_str(line));
    }
    proof { assert(ls.take(ls.len() as int) =~= ls); }
    result
}
} // verus!
fn main() {}
