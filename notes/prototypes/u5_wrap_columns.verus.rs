use vstd::prelude::*;
use std::borrow::Cow;
verus! {
pub mod specs {
use super::*;

pub uninterp spec fn dw(s: Seq<char>) -> nat;                       // U3
#[verifier::external_body]
pub fn display_width(text: &str) -> (w: usize) ensures w == dw(text@) { unimplemented!() }

pub open spec fn spaces(n: nat) -> Seq<char> { Seq::new(n, |i: int| ' ') }

#[verifier::external_body]
pub fn vx_str_repeat_space(n: usize) -> (r: String) ensures r@ == spaces(n as nat) { " ".repeat(n) }
#[verifier::external_body]
pub fn vx_string_from_str(s: &str) -> (r: String) ensures r@ == s@ { String::from(s) }
#[verifier::external_body]
pub fn vx_usize_from_bool(b: bool) -> (r: usize) ensures r == (if b { 1usize } else { 0usize }) { usize::from(b) }
#[verifier::external_body]
pub fn vx_cmp_max(a: usize, b: usize) -> (r: usize) ensures r == (if a >= b { a } else { b }) { std::cmp::max(a, b) }

pub uninterp spec fn cow_view(c: Cow<'_, str>) -> Seq<char>;
#[verifier::external_body]
pub fn vx_cow_as_str<'b>(c: &'b Cow<'_, str>) -> (r: &'b str) ensures r@ == cow_view(*c) { c }

#[verifier::external_body] pub struct WordSeparator { x: usize }
#[verifier::external_body] pub struct WordSplitter { x: usize }
#[verifier::external_body] pub struct WrapAlgorithm { x: usize }
#[derive(Clone, Copy)] pub enum LineEnding { CRLF, LF }
pub struct Options<'a> {
    pub width: usize,
    pub line_ending: LineEnding,
    pub initial_indent: &'a str,
    pub subsequent_indent: &'a str,
    pub break_words: bool,
    pub wrap_algorithm: WrapAlgorithm,
    pub word_separator: WordSeparator,
    pub word_splitter: WordSplitter,
}

/// the lines `wrap` returns (abstract here; its own properties are C01..C09)
pub uninterp spec fn wrap_spec(text: Seq<char>, o: Options<'_>) -> Seq<Seq<char>>;
#[verifier::external_body]
pub fn wrap<'a>(text: &'a str, options: Options<'_>) -> (r: Vec<Cow<'a, str>>)
    ensures r@.len() == wrap_spec(text@, options).len(), r@.len() <= isize::MAX,
        forall|i: int| 0 <= i < r@.len() ==> cow_view(#[trigger] r@[i]) == wrap_spec(text@, options)[i]
{ unimplemented!() }

// ---- C20: the layout, written from the property statement ----
pub open spec fn sat_sub(a: nat, b: nat) -> nat { if a >= b { (a - b) as nat } else { 0 } }

pub open spec fn cell(ls: Seq<Seq<char>>, i: int, cw: nat) -> Seq<char> {
    if 0 <= i < ls.len() { ls[i] + spaces(sat_sub(cw, dw(ls[i]))) } else { spaces(cw) }
}
/// cells 0..c of row r, each followed by the middle gap, or by the remainder padding after the last column
pub open spec fn row_prefix(ls: Seq<Seq<char>>, r: int, c: int, rows: int, columns: int, cw: nat, mid: Seq<char>, rem: nat) -> Seq<char>
    decreases c
{
    if c <= 0 { Seq::empty() } else {
        row_prefix(ls, r, c - 1, rows, columns, cw, mid, rem)
            + cell(ls, r + (c - 1) * rows, cw)
            + (if c - 1 == columns - 1 { spaces(rem) } else { mid })
    }
}
pub open spec fn inner_width(total: nat, l: nat, r: nat, m: nat, columns: nat) -> nat {
    sat_sub(sat_sub(sat_sub(total, l), r), m * (columns - 1) as nat)
}
pub open spec fn col_width(inner: nat, columns: nat) -> nat { if inner / columns >= 1 { inner / columns } else { 1 } }
pub open spec fn rows_of(n: nat, columns: nat) -> nat { n / columns + (if n % columns > 0 { 1nat } else { 0nat }) }

pub open spec fn rows_ok(lines: Seq<String>, n: int, left: Seq<char>, right: Seq<char>, ls: Seq<Seq<char>>, rows: int, columns: int, cw: nat, mid: Seq<char>, rem: nat) -> bool {
    forall|r: int| 0 <= r < n ==> (#[trigger] lines[r])@ == left + row_prefix(ls, r, columns, rows, columns, cw, mid, rem) + right
}
pub proof fn rp_zero(ls: Seq<Seq<char>>, r: int, rows: int, columns: int, cw: nat, mid: Seq<char>, rem: nat)
    ensures row_prefix(ls, r, 0, rows, columns, cw, mid, rem) =~= Seq::<char>::empty()
{}
pub proof fn rp_step(ls: Seq<Seq<char>>, r: int, c: int, rows: int, columns: int, cw: nat, mid: Seq<char>, rem: nat)
    requires c >= 0
    ensures row_prefix(ls, r, c + 1, rows, columns, cw, mid, rem) =~= row_prefix(ls, r, c, rows, columns, cw, mid, rem) + cell(ls, r + c * rows, cw) + (if c == columns - 1 { spaces(rem) } else { mid })
{}
pub proof fn rows_bound(n: nat, columns: nat)
    requires columns >= 1
    ensures columns * rows_of(n, columns) <= n + columns, rows_of(n, columns) <= n + 1
{
    assert(columns * (n / columns) <= n) by(nonlinear_arith) requires columns >= 1;
    assert(columns * rows_of(n, columns) <= columns * (n / columns) + columns) by(nonlinear_arith)
        requires rows_of(n, columns) <= n / columns + 1, columns >= 1;
    assert(n / columns <= n) by(nonlinear_arith) requires columns >= 1;
}
pub proof fn idx_bound(c: nat, columns: nat, rows: nat, n: nat, r: nat)
    requires c < columns, r < rows, columns * rows <= n + columns
    ensures r + c * rows < n + columns
{
    assert(c * rows + rows <= columns * rows) by(nonlinear_arith) requires c < columns, rows >= 0;
}
}
use specs::*;

pub fn wrap_columns<'a>(
    text: &str,
    columns: usize,
    total_width_or_options: Options<'a>,
    left_gap: &str,
    middle_gap: &str,
    right_gap: &str,
) -> (lines: Vec<String>)
    requires
        columns > 0,
        // memory exemption of C04/C20: a row holds (columns-1) middle gaps and `columns` cells
        columns <= isize::MAX,
        dw(middle_gap@) * (columns - 1) <= usize::MAX,
    ensures ({
        let inner = inner_width(total_width_or_options.width as nat, dw(left_gap@), dw(right_gap@), dw(middle_gap@), columns as nat);
        let cw = col_width(inner, columns as nat);
        let o = Options { width: cw as usize, ..total_width_or_options };
        let ls = wrap_spec(text@, o);
        let rows = rows_of(ls.len(), columns as nat);
        &&& lines@.len() == rows
        &&& forall|r: int| 0 <= r < rows ==> (#[trigger] lines@[r])@ ==
                left_gap@ + row_prefix(ls, r, columns as int, rows as int, columns as int, cw, middle_gap@, inner % cw) + right_gap@
    }),
{
    assert(columns > 0);

    let mut options: Options = total_width_or_options;

    let inner_width = options
        .width
        .saturating_sub(display_width(left_gap))
        .saturating_sub(display_width(right_gap))
        .saturating_sub(display_width(middle_gap) * (columns - 1));

    let column_width = vx_cmp_max(inner_width / columns, 1);
    options.width = column_width;
    let last_column_padding = vx_str_repeat_space(inner_width % column_width);
    let ghost o = options;
    let wrapped_lines = wrap(text, options);
    let ghost ls = wrap_spec(text@, o);
    let lines_per_column =
        wrapped_lines.len() / columns + vx_usize_from_bool(wrapped_lines.len() % columns > 0);
    proof { rows_bound(wrapped_lines@.len() as nat, columns as nat); }
    let mut lines = Vec::new();
    for line_no in 0..lines_per_column
        invariant
            columns >= 1, columns <= isize::MAX, wrapped_lines@.len() <= isize::MAX,
            columns * lines_per_column <= wrapped_lines@.len() + columns,
            ls.len() == wrapped_lines@.len(),
            forall|i: int| 0 <= i < wrapped_lines@.len() ==> cow_view(#[trigger] wrapped_lines@[i]) == ls[i],
            last_column_padding@ == spaces((inner_width % column_width) as nat),
            lines@.len() == line_no,
            rows_ok(lines@, line_no as int, left_gap@, right_gap@, ls, lines_per_column as int, columns as int, column_width as nat, middle_gap@, (inner_width % column_width) as nat),
    {
        let mut line = vx_string_from_str(left_gap);
        proof { rp_zero(ls, line_no as int, lines_per_column as int, columns as int, column_width as nat, middle_gap@, (inner_width % column_width) as nat); assert(row_prefix(ls, line_no as int, 0, lines_per_column as int, columns as int, column_width as nat, middle_gap@, (inner_width % column_width) as nat) =~= Seq::<char>::empty()); assert(line@ =~= left_gap@ + Seq::<char>::empty()); }
        for column_no in 0..columns
            invariant
                line_no < lines_per_column,
                columns >= 1, columns <= isize::MAX, wrapped_lines@.len() <= isize::MAX,
                columns * lines_per_column <= wrapped_lines@.len() + columns,
                ls.len() == wrapped_lines@.len(),
                forall|i: int| 0 <= i < wrapped_lines@.len() ==> cow_view(#[trigger] wrapped_lines@[i]) == ls[i],
                last_column_padding@ == spaces((inner_width % column_width) as nat),
                line@ =~= left_gap@ + row_prefix(ls, line_no as int, column_no as int, lines_per_column as int, columns as int, column_width as nat, middle_gap@, (inner_width % column_width) as nat),
        {
            proof { idx_bound(column_no as nat, columns as nat, lines_per_column as nat, wrapped_lines@.len() as nat, line_no as nat); }
            match wrapped_lines.get(line_no + column_no * lines_per_column) {
                Some(column_line) => {
                    line.push_str(vx_cow_as_str(column_line));
                    line.push_str(vx_str_repeat_space(column_width.saturating_sub(display_width(vx_cow_as_str(column_line)))).as_str());
                }
                None => {
                    line.push_str(vx_str_repeat_space(column_width).as_str());
                }
            }
            if column_no == columns - 1 {
                line.push_str(last_column_padding.as_str());
            } else {
                line.push_str(middle_gap);
            }
            proof {
                let rp = row_prefix(ls, line_no as int, column_no as int + 1, lines_per_column as int, columns as int, column_width as nat, middle_gap@, (inner_width % column_width) as nat);
                let rp0 = row_prefix(ls, line_no as int, column_no as int, lines_per_column as int, columns as int, column_width as nat, middle_gap@, (inner_width % column_width) as nat);
                rp_step(ls, line_no as int, column_no as int, lines_per_column as int, columns as int, column_width as nat, middle_gap@, (inner_width % column_width) as nat);
                assert(rp =~= rp0 + cell(ls, line_no as int + column_no as int * lines_per_column as int, column_width as nat)
                    + (if column_no as int == columns as int - 1 { spaces((inner_width % column_width) as nat) } else { middle_gap@ }));
            }
        }
        line.push_str(right_gap);
        let ghost prev = lines@;
        lines.push(line);
        proof { assert(forall|r: int| 0 <= r < prev.len() ==> lines@[r] == prev[r]); }
    }

    lines
}
} // verus!
fn main() {}
