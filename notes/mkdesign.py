import sys, json, re
sys.path.insert(0,'/verif/tools')
import props
s1=open('/verif/notes/design_s1.md').read()
s21=open('/verif/notes/design_s21.md').read()
# amend R16 row and the "not built" notes
s21=s21.replace("| R16 *(stretch)* | closure conversion: `iter::from_fn(move \\|\\| BODY)` ⇒ a named struct holding the captured variables (types from the side-car, checked by rustc) with `fn next(&mut self)` whose body is `BODY` with captures prefixed by `self.` | would bring `find_words_ascii_space`, `break_apart`, `split_words` into reach | only with the fidelity guard; not prototyped |",
"| R16 | closure conversion (`//@closure <ordinal> self=a,b :: <fn header>`): the body of the n-th closure of the function (`iter::from_fn(move \\|\\| BODY)`, `.filter(\\|x\\| BODY)`, `.find(\\|x\\| BODY)`) is verified as a method of a struct holding the captured variables: same tokens, captured identifiers prefixed by `self.` (field types come from the side-car and are checked by rustc); the enclosing function becomes the struct's constructor | brings `find_words_ascii_space` (U13), `split_words` (U14), `Word::break_apart` (U15) and the three closures of `find_words_unicode_break_properties` (U20) into reach | that `from_fn`/`collect` call `next` until `None` and keep the items in order is std behaviour (A4) |\n| R17 | `RefCell<Vec<usize>>` ⇒ `Vec<usize>`, `&self` ⇒ `&mut self`, `.borrow()` / `.borrow_mut()` dropped (`LineNumbers`, U23) | no RefCell support | exact as long as no two borrows overlap: each is a temporary that dies within its own statement, none is alive across the recursive call |\n| R18 | `for (c, &x) in S.iter().enumerate().filter(\\|(c, _)\\| c % 2 == 0) {B}` ⇒ `for h in 0..(S.len() + 1) / 2 { let c = 2 * h; let x = S[c]; B }` (`smawk_inner`, U24) | no spec for `Enumerate`/`Filter` | exact: the even indices below `len`, in order |\n| R19 | the local `macro_rules! m` of `online_column_minima` is expanded at its four uses (`assert!(c, msg…)` ⇒ `assert(c)`, to be *proved*); its definition — matched **literally** (`must=match`: any change to it leaves the unit undecided) — is dropped; the inline closure handed to `smawk_inner` is bound to a local first and gets parameter types (U24) | macros and untyped closures | expansion by hand, guarded by the literal match |")
props_text={}
for l in open('/verif/properties.jsonl'):
    d=json.loads(l); props_text[d['id']]=d['statement']
titles={'C01':'lines are in-order slices of the input','C02':'first-fit lines fit unless one unbreakable fragment','C03':'optimal-fit is minimum-cost','C04':'totality',
'C05':'the shortcut is unobservable','C06':'both algorithms return an ordered partition','C07':'first-fit is greedy-maximal','C08':'every line carries its indent',
'C09':'paragraphs wrap independently, breaks kept','C10':'display_width','C11':'word finding','C12':'splitting and force-breaking','C13':'ANSI codes do not move breaks',
'C14':'fill is idempotent','C15':'unfill','C16':'refill == fill at the new width','C17':'fill_inplace','C18':'dedent','C19':'indent','C20':'wrap_columns'}
notes={
'C01':"Mutants rejected by U11 in scratch copies: `idx += len` without the whitespace, last whitespace not subtracted, penalty always pushed, slice from 0, indents swapped, non-empty sentinel word.",
'C02':"The precondition `line_widths == expected_widths(options, first)` on the line breaker is taken from the statement (\"each line is measured against the indent it is actually rendered with\"); the pinned text failed exactly this obligation (F1). KF1 (§5) is the one class where the letter of C02 is violated and nothing can be repaired.",
'C03':"Rejected cost-model mutants: `gap` for `gap*gap`, last-line exemption dropped, prefix index off by one, hyphen/nline penalty dropped or moved into one branch (seed w4_C03_A), `i == j`, whitespace missing from the prefix sums.",
'C05':"A mutant tried at authoring time (scratch copy, not among the seeds): `<` → `<=` in the shortcut's condition is not a C08/C01 violation, and U11's clauses tagged C08/C01 rightly accept it; C05's own clauses reject it.",
'C16':"The equation splits into (i) how `refill` composes `unfill` and `fill` — one call, proved (U21) — and (ii) `unfill(fill(t, o1))` returns `t` and `o1`'s indents — two calls, bounded (C15's round trip). Findings KF2/KF3 live in (ii).",
'C17':"Agreement with `wrap` would need U10's break positions and U11's slices to be related through one shared `first-fit runs` function of the same words; both units state their result in terms of the partition returned by `wrap_first_fit`, but the two-call comparison itself is bounded.",
'C18':"Was `exploration` in the plan; U9 was built on U8's wrapper pattern.",
}
out=[]
w=out.append
w("""# DESIGN — contract-based deductive verification of mgeisler/textwrap (pinned tree)

This file was first written before any framework code (design round). The framework now exists; the text below describes
it **as built**. Departures from the original plan are listed in §9; corrections of false alarms in §10; the record of
seeded changes and which check catches which in §11.

## 0. Summary

* **Technique.** Every property becomes *contracts on the real functions of `/repo`*: pre/postconditions, loop
  invariants, ghost state, lemmas. One contract set, several back ends, strongest first:
  1. **Verus** (unbounded, deductive) on function text **extracted mechanically from `/repo/src` on every run**,
     rewritten only by a fixed, logged list of token-level rules (§2.2), with contracts merged in from side-car files in
     `/verif/contracts/`. 22 units, ≈ 80 extracted items (functions, closures, types), ≈ 560 verified functions and lemmas (Verus's "verified"
     count) carrying ≈ 1030 contract clauses, 1–13 s per unit.
  2. **Kani, loop-free / full domain** (complete): `ch_width(c) <= c.len_utf8()` for every `char`, both feature sets (K1); the float-exactness facts C05's one-line argument uses, for every pair of `usize` operands (K3); `'\\r'.is_whitespace()` on the real std function, an axiom of U9's C18 theorem, and the specs assumed for `char::is_ascii` / `u8::is_ascii_whitespace` in the shared prelude, for every `char` / every `u8` (K5).
  3. **Kani, bounded**: `wrap_first_fit` with bit-precise IEEE-754 floats, 3 fragments (K2, thorough tier of C07) — labelled *bounded*.
  4. **Bounded exhaustive contract checking (BEC)**: the same contracts in executable form, evaluated on the real crate
     (linked natively from `/repo`, both feature sets) for *every* input of a stated small scope plus seeded random
     sampling. This is the permitted "bounded check with a stated bound" for what neither verifier reaches, always
     labelled *bounded* and never counted as proved. BEC is also the replay harness and the counterexample finder when
     Verus rejects an obligation (Verus gives no model).
* **Functions under contract — Verus units U…, complete Kani harnesses K1 / K3 / K5; the bounded K2 is described in §2.3** (each verifies on the current tree through the extractor; each was shown
  to reject seeded mutants in a scratch copy; none raises an alarm on 25 + 12 behaviour-preserving refactors, 16 small edits and 137 renames of locals, §8):

  | unit | functions of `/repo` | what is proved for all inputs | serves |
  |---|---|---|---|
  | U1 | `wrap_algorithms::wrap_first_fit` | ordered partition **and** greedy-maximal (the exact float comparison of the statement) | C06, C07, C02, C04 |
  | U2 | `optimal_fit::wrap_optimal_fit` | partition by back-tracking; the cost closure equals the documented cost model; no index/overflow panic | C06, C03, C04 |
  | U3 | `core::skip_ansi_escape_sequence`, `display_width`, `strip_ansi_escape_sequences` | exact functional spec (`dw`), `<=` byte length, chunk lemmas, the stripped string is the text without its escape sequences; termination (ghost counter) | C10, C05, C13, C04 |
  | U4 | `line_ending::NonEmptyLines::next` | exact spec, every slice on a char boundary, terminates | C15, C04 |
  | U5 | `columns::wrap_columns` | the complete layout of C20 relative to whatever `wrap` returns; no panic; theorem: for well-formed texts whose lines fit, every row is exactly gaps + columns + remainder wide | C20, C04 |
  | U6 | `core::Word::from`, `core::break_words` | lossless, spaces-only whitespace, cached width; dispatch is lossless / identity for narrow words; words that hold no space stay so (`tails_ok`) | C11, C12, C01, C02 |
  | U8 | `indentation::indent` | equals the spec function of C19 | C19, C04 |
  | U9 | `indentation::dedent` | removes exactly the margin the statement defines; theorems over that postcondition: idempotent (outside KF4's input class), and `dedent(indent(s, p)) == dedent(s)` (texts without carriage returns, whitespace prefixes without line break: outside KF8's class) | C18, C04 |
  | U10 | `fill::fill_inplace` | same length; bytes change only `' '` → `'\\n'`, and exactly at the run ends first-fit makes of each line's ASCII words; `from_utf8(..).unwrap()` cannot fail | C17, C04 |
  | U11 | `wrap::wrap`, `wrap_single_line`, `wrap_single_line_slow_path` | every line starts with its indent; **for the whole text** line k is `indent_k ++ text[a_k..b_k] ++ (nothing \| "-")` with slices in order, on char boundaries, separated only by spaces and at most one line ending; **no slice ends in a space** (ASCII-space separator; any splitter, a custom one under A15); the line breaker gets the widths of the indents actually rendered (and a zero-width first fragment when the first line is the narrower one); >= 1 line per paragraph, earlier lines untouched; the shortcut's exact result, and (first-fit, built-in splitters) the slow path gives that same line when entered under the shortcut's condition; **`wrap` computes the paragraph-wise function `wrap_fn(split(text, E), options)`** (each of the three functions: the appended lines are a function of paragraph, options and "does it start the output"), with the relational clauses of C09 (independence of paragraphs, `wrap(b)` for empty indents, never fewer lines than paragraphs, LF↔CRLF) and C08 (what follows the indent depends on the indents' widths and emptiness only) as theorems over it | C08, C01, C02, C09, C05, C04 |
  | U12 | `fill::fill_slow_path`, `fill::fill` | both equal `wrap`'s lines joined by the line ending — shortcut included | C09, C05, C04 |
  | U13 | `word_separators::find_words_ascii_space` (closure, R16), `WordSeparator::find_words` (the dispatcher), `enum WordSeparator` | words are `Word::from(line[s0..s1])` at exactly the space→non-space boundaries; they tile the line; no word holds a space and only the first can be without text (`tails_ok`); `AsciiSpace` is served by `find_words_ascii_space` on the same line | C11, C01, C17 |
  | U14 | `word_splitters::split_words` (closure, R16) | pieces cut exactly at the split points, hyphen penalty rule, whitespace/penalty on the last piece only; tiling; pieces of a word with text are non-empty sub-slices (`tails_ok` kept) | C12, C01 |
  | U15 | `core::Word::break_apart` (closure, R16) | non-empty pieces, concatenation, width limit unless a single non-zero-width char, maximality, never inside an escape sequence, cached widths; every piece is a sub-slice of the word's text | C12, C13, C01 |
  | U16 | `WordSplitter::split_points` (hyphen splitter) | exactly the positions after a `-` with alphanumerics on both sides; increasing char boundaries; each directly after a `-` byte | C12, C05 |
  | U17 | `WrapAlgorithm::wrap` (dispatch), `Word`'s `Fragment` impl | hands the words and every listed width to the algorithm unchanged and its partition back; accessors are pure functions of the fields; first-fit keeps words that all fit the first line on one line (A16) | C06, C07, C03, C05, C01 |
  | U18 | `refill::unfill` | indents are prefixes made of prefix characters; no inner line break; line-ending rule; width == display width of the widest line; all slices safe | C15, C04 |
  | U20 | `word_separators::find_words_unicode_break_properties` (three closures, R16) | the boundaries are exactly the kept UAX #14 opportunities (relative to the assumed shape of `unicode_linebreak::linebreaks`), one each, in order, mapped back outside escape sequences; words tile the line | C11, C13, C01 |
  | U21 | `refill::refill` | `refill(x, o2) == fill(unfill(x).text minus final ending, o2 with unfill(x)'s indents) ++ ending` | C16, C04 |
  | U22 | `options.rs`: `Options::new`, `From<&Options>`, `From<usize>`, the eight setters; `LineEnding::as_str` | the by-reference conversion copies every option unchanged; documented defaults; each setter changes exactly its field; `as_str` is `"\\r\\n"` / `"\\n"` | C09, C08, C02, C04 |
  | U23 | `optimal_fit::LineNumbers::{new, get}` (RefCell memo, rewrite R17) | terminates, no panic, returns the number of back-pointer hops — for every table of smawk's shape | C03, C06, C04 |
  | U24 | **dependency** `smawk` (version pinned by `Cargo.lock`, source read from the cargo registry): `online_column_minima`, `smawk_inner` | for every matrix callback (no monotonicity assumed): no panic (the `assert!`s of the `m!` macro, every index and subtraction), termination, the callback is called only on cells above the diagonal whose row is finished and with a well-shaped table, the result is a back-pointer table of length `size` with entry `k` pointing at a row `< k` — the contract U2 used to assume (A6) | C06, C03, C04 |
  | K1 | `core::ch_width` | `ch_width(c) <= c.len_utf8()` for all 1,112,064 scalar values (Kani, loop-free) | C10, C05, C04 |
  | K5 | `char::is_whitespace` (std) | `'\\r'.is_whitespace()` — U9's axiom `cr_is_ws` — on the real std function (Kani, loop-free, concrete characters); `char::is_ascii(c) == (c < 128)` for every char and `u8::is_ascii_whitespace(b) == b ∈ {32, 9, 10, 12, 13}` for every u8 — the two char-level `assume_specification`s of `prelude/std_more.vrs` | C18 |
  | K3 | `Word::width()` (`usize as f64`) and f64 `+`, `>` | `a + b < 2^53` implies `a as f64 + b as f64 == (a + b) as f64`; `a <= b` implies `!(a as f64 > b as f64)`; `0 as f64 == 0.0`; 64-bit `usize` — the A16 axioms of U17, all `usize` operands (Kani, loop-free, bit-precise) | C05 |

* **Genuine defects found and repaired** (five `fix:` commits in `/repo`, §5): F1 (C02), F2 (C08), F5 (C20/C04) were
  convicted by Verus obligations on the pinned text *and* by BEC; F3 (C11) and F4 (C18) by BEC. Eight further findings
  (KF1–KF8) are recorded as open known findings with reasons (§5).
* **What stays bounded** (per property; details in §4):
  - C01: pointer identity of borrowed lines; "a slice never ends in a space except after a forced break" for the Unicode separator
    (for the ASCII-space separator it is proved, for every splitter — a custom one under its A15 obligation);
  - C02: the text-level statement (display width of each rendered line, with its single-fragment exception);
  - C03: optimality proper (needs real arithmetic and total monotonicity; that smawk's table holds *minima*);
  - C04: "optimal-fit never reports an overflow error" (float magnitudes), the inside of `unicode-linebreak` / `unicode-width`, the
    call through a `WordSeparator::Custom` function pointer, the thin constructors;
  - C05: the first sentence (a paragraph whose display width fits is one line) and the optimal-fit / custom-splitter cases of the second;
  - C13 end to end, C14, the round trips of C15 / C16, the agreement of `fill_inplace` with `wrap` (C17):
    relational statements that compare runs on *different* inputs through more than the paragraph structure.
  C09's and C08's relational clauses, by contrast, are theorems over `wrap`'s functional postcondition (U11, §2.9), and C18's two
  corollaries are theorems over `dedent`'s (and `indent`'s) postconditions (U9, §2.9).
* **Robustness of the machinery** (§8, §11): 189 seeded property-breaking changes that compile and pass the upstream suite
  (5 reverted fixes + 184 from independent sub-agents in sixteen waves) are all reported; 25 + 12 behaviour-preserving refactors, 16 small edits and 137 renames of locals
  raise no alarm; every unit verifies under 8 different SMT seeds; the unchanged tree passes all 20 checks in both tiers.
""")
w(s1.rstrip()+"\n")
w("""## 2. Architecture

```
/verif
  check                  ./check <Cxx> [--tier quick|thorough] [--seed N] | --replay <file>     (exit 0 / 1 VIOLATION / 2 undecided)
  setup.sh               builds bec in both feature flavours, warms Verus up
  MANIFEST.json          generated by tools/mkmanifest.py from tools/props.py
  known_findings.json    fixed: F1–F5 (five `fix:` commits in /repo); open: KF1–KF8
  contracts/u*.vrs       side-cars, one per unit (table in §0)
  contracts/prelude/     shared pieces (`//@include`): Options / LineEnding extracted from /repo, specs of std functions (`std_more.vrs`), ANSI spec (`skip_len`, `dw`, `strip`),
                         the chunk model of well-formed texts with the additivity of display width over them (`ansi_chunks.vrs`), UTF-8 position lemmas (`fresh.vrs`), ASCII-boundary lemmas, `lines()` byte model
  contracts/skel/        code-only skeletons (generated by `vx.py derive`; anchors for the merge only, never verified)
  tools/vx.py            lexer, extractor, rule rewriter, closure conversion, three-way annotation merge, Verus driver, obligation map
  tools/kx.py  kani/     Kani driver (scratch copy outside /repo and /verif) and harnesses K1, K2, K3, K5
  tools/props.py         per property: units, Kani harnesses, level, proved / bounded parts, trusted base
  tools/seedtest.py      applies seeded/<id>/patch.diff to /repo, runs the checks, undoes it -> seeded/RESULTS.json; seedreport.py -> RESULTS.md
  tools/seedpar.py       the same in parallel on scratch copies outside /repo and /verif (never touches /repo); --harmless: every check on each behaviour-preserving edit
  tools/seedimport.sh, seedverify.sh   import a sub-agent's change as seeded/<id>/ and confirm it (suite passes, demo fails only with the patch);  seedverus.py  Verus-only sweep
  tools/kfexpect.py      records the failing-input sets of the open known findings (known_findings.json `expected_sets`; by hand, unchanged tree)
  tools/harmless.py      behaviour-preserving refactors must not raise violations;  tools/stability.py  SMT-seed sweep
  tools/harmless2.py     independently written refactors (harmless/<id>/patch.diff) against every quick check;  tools/renames.py  rename campaign
  bec/                   bounded exhaustive contract checker (Rust; path dependency on /repo; `--cfg fuzzing`)
  seeded/<id>/           patch.diff, demo.rs, NOTES.md, meta.json — changes that break a property yet pass the suite
  evidence/<id>.json     rewritten by every run;   replays/<id>/<n>.json  written on violation
  notes/                 mkdesign.py + design_s*.md generate this file from tools/props.py; prototypes and experiments of the design round
  (unit numbers U7 and U19 are unused: U7 was merged into U6, U19 into U12)
```
""")
w(s21.rstrip()+"\n")
w("""### 2.3 Back ends

* **Verus**: one process per unit, 1–4 s each (U11: ≈ 13 s); all units of a property run in parallel.
  `verus unit.rs --triggers-mode silent --output-json --time --error-format=json --multiple-errors 5` (plus `--rlimit 20` for the units that say `//@rlimit 20`).
* **Kani**: `kx.py` copies `/repo` (without `target/`, `.git/`) to a scratch directory **outside `/repo` and `/verif`**,
  appends the harness module to the copy of the named source file under `#[cfg(kani)]`, relaxes
  `#![forbid(unsafe_code)]` in the copy only, runs `CARGO_NET_OFFLINE=true cargo kani --harness …`, parses the result,
  deletes the copy and its `target/`. No commit to `/repo` is needed (`MANIFEST.hooks`: no source commits; guards are the
  compiler-provided `kani` cfg and upstream's existing `--cfg fuzzing`). **K1** `ch_width(c) <= c.len_utf8()`,
  `c: char = kani::any()`, loop-free, both feature sets, with a `should_panic` reachability twin — complete; quick tier of
  C04, C05, C10, C20 (2–10 s; it also checks that a space is one column wide, for C20). **K3** the three float facts that U17 states as axioms (A16), over symbolic `usize` operands, with the conversion taken from the real `Fragment` accessor and a `should_panic` twin that drops the 2^53 bound — complete; quick tier of C05 (≈ 80 s, almost all of it the 64-bit adder). **K5** `'\\r'.is_whitespace()` (with `'\\n'`, `' '`, U+3000 and a non-whitespace control) on the real std function, the second std fact of U9's C18 theorem, plus two full-domain harnesses (every `char`, every `u8`) that discharge the specs the shared prelude assumes for `char::is_ascii` and `u8::is_ascii_whitespace` — complete; quick tier of C18 (≈ 4 s). **K2** `wrap_first_fit`, 3 fragments with quarter-integer widths < 4, two line widths < 8: U1's
  postconditions under real IEEE semantics — *bounded*, ≈ 10 min / 13 GB, thorough tier of C07. (The planned K4 for the
  SMAWK call shape was first covered by the BEC contract `A6.smawk.call_shape` on the real `smawk` crate and is now also proved in U24; the BEC contract still runs.)
* **BEC** (`/verif/bec`, `textwrap = { path = "/repo" }`, built offline with `--cfg fuzzing`, release profile with
  `overflow-checks` and `debug-assertions` on, default features and `--no-default-features`): contracts are Rust
  predicates returning `Result<bool, String>` (the bool counts non-trivial cases); enumerators produce *all* inputs of a
  scope by index (rayon), with a hang watchdog. Wrap-level contracts run, typically, (i) every text of <= 4–5 (thorough 5–6) symbols over
  a core alphabet of 7–9 symbols, (ii) every text of <= 2 (thorough 3) symbols over a 25-symbol broad alphabet (tab, NBSP,
  U+3000, CR, CRLF, ZWSP, combining mark, SHY, 你, 中 — whose UTF-8 ends in 0xAD —, emoji, CSI sequences ending in `m`,
  `~` and `@`, an OSC hyperlink, an OSC title with a space, a hyperlink with a hyphenated URL), (iii) 60 000 (thorough 5–15 million) seeded
  random texts of <= 40 symbols over the broad alphabet; each × an option grid drawn from 2 algorithms × 2 separators × 3 splitters ×
  break_words × 9 indent pairs (multi-byte, zero-width, ANSI-coloured and wider-than-width ones included; options also passed by
  reference) × 6–8 widths including 0 (and `usize::MAX` where the contract permits). These figures are indicative: **each evidence file
  carries the exact scope strings**, the number of evaluations and of non-trivial cases. Oracles are independent of the code: UAX #14 opportunities from `unicode-linebreak` directly, widths from
  `unicode-width` directly, ANSI stripping and "well-formed" from the property text, minimum cost by brute force in exact
  integers. Failures may carry an input class (`[class=…]`), collected separately so that a recorded finding can never
  crowd out a different violation. Escape sequences in the wrap-level alphabets are terminated ones (the texts C10 and C13 speak about); unterminated
  openers appear where they are the point: C04's adversarial alphabet (totality), C10's (the skipper itself) and C20's (known finding KF7).

### 2.4 Verdicts

* **pass** — every obligation discharged.
* **violation** — (a) BEC or Kani found a concrete input: it is re-executed against the real crate by the replay harness
  and only if the contract fails again is `VIOLATION property=<id> replay=/verif/replays/<id>/<n>.json` printed;
  (b) a Verus obligation (which passed on the unchanged tree) now fails with a genuine verification error (postcondition,
  invariant, precondition, overflow, termination): the BEC failures of the same run are searched for a failing input of
  the function's executable contract; found → as (a); not found → the replay file names the obligation and carries
  Verus's message, and the line ends with `no-failing-input-found`.
* **undecided** (exit 2, no VIOLATION line) — lost anchor, item not found, Verus *compile/mode* error (e.g. a renamed
  captured variable of a converted closure, an unsupported new construct), rlimit/timeout, Kani out of memory, BEC build failure or
  watchdog. Never an alarm.
* **known finding** — a violation matching an *open* entry of `known_findings.json` (property + input class, and — at the default seed —
  the recorded set of failing inputs of that class, §5: the same class on a different set of inputs is a VIOLATION) prints
  `KNOWN-FINDING: property=<id> …` and does not fail the run; `fixed:` entries suppress nothing; the file is never
  written at run time.

### 2.5 Vacuity and assumption guards (every run)

* `//@probe` lines in the side-cars mark postconditions; a *probe* copy of the unit with `false,` inserted there must
  **fail** to verify; if it verifies, preconditions/axioms are contradictory → exit 2. A probe that does not compile is
  reported as such, not as vacuity.
* Obligation counts must be non-zero; each BEC contract must see a non-zero number of non-trivial cases.
* A scan of the generated files lists every `assume(`, `admit(`, `external_body`, `assume_specification`, `axiom`,
  `exec_allows_no_decreases_clause`; the list goes to the evidence (`trusted_scan`). No `assume`/`admit` exists.
* The code tokens of every generated function are asserted to equal the rewritten tokens of the current source; every
  annotation insertion is linted to be ghost-only.

### 2.6 Cost

quick (per property): its Verus units in parallel (1–4 s each, U11 ≈ 13 s) + its BEC contracts at the quick scope + K1 / K3 where listed:
2–27 s per property on 16 cores (C05: ≈ 90 s because of K3) (BEC binaries cached under `/verif/bec/target*`, rebuilt when `/repo` changes).
thorough: the thorough scopes and 5–15 M random cases per contract (10 s – 4 min per property, up to 550 M contract evaluations) + K2 for C07 (≈ 10 min). Generated unit files and Kani
copies live in `mktemp -d` directories outside `/repo` and `/verif` and are removed on exit.

### 2.7 Evidence

`evidence/<id>.json` (schema-valid, written by `check`): functions under contract (path, span, sha256), rule
applications, per-unit Verus result (`verified`, `errors`, SMT time, rlimit), probe results, Kani harness results, BEC
scopes with `evaluations` / `distinct_nontrivial`, the trusted scan, the assumptions used (§3) and the level — `proof`
only if every clause of the statement is discharged by Verus or loop-free Kani (assumed callee contracts named), where (a) a clause
that is the composition of contracts proved in different units, linked by an audited restated contract (§2.8, A9), counts as
discharged relative to that link (this is how every multi-unit proof here works; C07's text-level reading and C03's last sentence
are of this kind), and (b) a clause may fail on the input class of an *open known finding* — there the pinned code demonstrably
violates the letter of the statement and the check says so (`KNOWN-FINDING`) — provided it is proved on the complement (C20's width
sentence: proved for texts that do not end inside an escape sequence, false otherwise, KF7; C18's idempotence: proved for every text in which
no line-break-terminated line with text ends in a carriage return — `kf4_free`, the exact complement of KF4's class —, false otherwise; C18's second
corollary: proved for every whitespace prefix without `'\\n'`, false for every prefix with one, KF8);
`other` for mixtures (the explanation names the proved and the bounded parts); `exploration` for bounded-only.

### 2.8 How units are linked

Verus runs one file per unit, so a callee proved in another unit appears in the caller's unit as an `external_body`
function (or an `axiom`) whose contract is **restated** there, marked "RESTATED from unit Ux". Where caller and callee fit
in one file they are verified together instead (U12: `fill` is checked against the contract of `fill_slow_path` proved in
the same file; U11: `wrap` → `wrap_single_line` → slow path; U6, U13–U15, U20: the closure and a *collecting wrapper* that
turns the per-`next` contract into a contract about the whole stream, which is what callers use). Every restated link was
audited against the provider's proved text; each is also an executable BEC contract on the real callee, so a drift between
restatement and callee would show up there within scope.

| consumer (restated) | provider (proved) | relation |
|---|---|---|
| U11 `vx_find_words`: words tile the line, cached widths correct | U13 `find_words` (the dispatcher) + `vx_collect_ascii_words`, U20 `vx_collect_unicode_words` | same clauses (providers prove more); `Custom` separator: A15 |
| U11 `vx_split_words`: tiling kept, cached widths correct | U14 `vx_split_words_collect` | same clauses |
| U11 `break_words` (requires cached widths correct): tiling kept | U6 `break_words` | same clause, same precondition |
| U6 `vx_vec_extend_break_apart` (requires non-empty text) | U15 `vx_break_apart_collect` | same clauses (pieces non-empty, each a sub-slice `is_sub` of the word's text) |
| U11 `vx_find_words` (`is_ascii_space(sep) ==> tails_ok`), `vx_split_words` (`tails_ok(in) ==> tails_ok(out)`), `break_words` (`tails_ok(in) ==> tails_ok(out)`) — C01's last sentence | U13 `find_words` (the dispatcher: `AsciiSpace` selects `find_words_ascii_space` on this line) + `vx_collect_ascii_words`; U14 `vx_split_words_collect`; U6 `break_words` (+ U15) | same predicate `tails_ok` (same text in the four units: no word holds a space; a word without text has nothing in front of it); U14 proves it for every splitter whose split points satisfy `valid_points` (the built-in ones: U16; a custom one: its author's obligation A15, exactly as for the tiling clause); `is_ascii_space(sep)` in U11 stands for `sep is AsciiSpace` in U13 |
| U11, U13, U20 `vx_word_from` / `word_from_post` | U6 `Word::from` | the five clauses of U6, or a subset |
| U11 `vx_wrap_algorithm_wrap`: ordered partition | U17 `WrapAlgorithm::wrap` → U1, U2 (`partition`) | same four clauses (`runs_concat` and `concat_lines` are the same fold) |
| U10 `vx_ascii_find_words_collect` (for the call `WordSeparator::AsciiSpace.find_words(line)`), `vx_wrap_first_fit_1` | U13 (the `find_words` dispatcher + `vx_collect_ascii_words`), U1 | same clauses, plus "the result is a function of the argument" (purity) |
| U11 all five word-stage callees: `r == f(args)` with `f` uninterpreted (`fw_spec`, `sw_spec`, `bw_spec`, `wf_spec`, `wa_spec`) | U13/U20, U14, U6/U15, U6, U17/U1/U2 | not a clause of the providers: determinism of safe, state-free Rust (A17); for U13, U20, U16+U14, U15 and U1 the proved contracts determine the result uniquely; `wa_spec(..).len() >= 1` restates C06 |
| U2 `vx_online_column_minima`: call shape, result shape, `2·size − 3 <= usize::MAX` | U24 `online_column_minima` (generic `T`; U2 uses `T = f64`) | same clauses: `call_ok` ≡ the antecedent of U2's `requires`, `table_shape` ≡ `minima_ok` |
| U14 `vx_split_points_iter`: increasing char boundaries inside the word | U16 `split_points` | proved for the two built-in splitters; `Custom`: A15 |
| U9 theorem `c18_dedent_of_indent`: `indent(s, p)` is `indent_spec(s, p)` | U8 `indent` (`res@ == indent_spec(s@, prefix@)`) | the same spec function: both units include `prelude/indent_spec.vrs` (and the split / join lemmas of `prelude/split_chars.vrs`) |
| U12 `wrap_shortcut_line` | U11 `wrap` (clause tagged C05 C09) | same predicate `wrap_shortcut_applies`, same conclusion, in bytes |
| U15, U20 `vx_skip_ansi_ci` | U3 `skip_ansi_escape_sequence` (any iterator obeying the iterator laws) | instance at `Map<&mut CharIndices, _>` (A4: `map`/`by_ref` only project / borrow) |
| U20 `strip_ansi_escape_sequences`; `display_width` in U5, U6, U11, U14, U18 | U3 | same postcondition; consumers keep `dw` abstract |
| U5 `wrap`; U12 `wrap` beyond the shortcut clause above; U21 `unfill`, `fill` | — | no content: the result is only *named* by an uninterpreted function |

**A correction this audit produced.** U6 used to assume of `break_apart` that its pieces tile the word *for every Word*.
That is false for a hand-made `Word` with empty text, non-empty whitespace and a large `width` (the field is public):
`break_apart` yields nothing and the whitespace is lost. The restated contract now requires non-empty text; U15 proves
exactly that (`vx_break_apart_collect`); `break_words` carries the precondition "cached widths are display widths" (true of
every `Word` the library makes: proved for `Word::from`, `split_words` and `break_apart`, and threaded through U11).

### 2.9 Relational clauses as theorems over a functional postcondition (C09, C08, C18, C19)

A contract speaks about one call; "the lines after `wrap(a)` do not depend on `a`" compares calls. Where a function can be
given a postcondition of the form *result == F(arguments)* for a spec function `F`, such a clause becomes a theorem about `F`
— proved once, for all inputs, by the same verifier. U11 does this for `wrap`:

* each restated callee contract of the word pipeline also says `r == f(args)` for an uninterpreted `f` (`fw_spec`, `sw_spec`,
  `bw_spec`, `wf_spec`, `wa_spec`: find, split, force-break, `Word::from`, line breaker) — determinism of safe, state-free
  Rust, assumption A17; nothing is said about what `f` is;
* `wrap_single_line_slow_path` is proved to append `para_slow(paragraph, options, first)`: the runs `wa_spec` returns for
  `para_words` (the three stages composed exactly as the code composes them, the zero-width sentinel included), rendered as
  `indent ++ slice ++ penalty`; `wrap_single_line` appends `para_fn` (the shortcut's `[trim(paragraph)]` or `para_slow`);
  `wrap` returns `wrap_fn(split(text, E), options)`, the left fold of `para_fn` with "first" meaning "no line yet". A second
  track (`wrap_fn_b`) does the same for the `Cow` variant of every line. The heavy steps sit in small lemmas with explicit
  parameters (`para_words_link`, `para_slow_link`), which brought the slow path's query from 140 M down to 22 M rlimit units;
* `str::split` is modelled as the left-to-right scan for the separator (`split_scan`); that a separator-free text is one piece
  and that, for the unbordered separators LF and CRLF, the pieces of `a ++ E ++ b` are those of `a` followed by
  those of `b` are proved for the model (`split_no_sep`, `split_concat`), and the model is checked against the real
  `str::split` by the bounded contract `A4.std_models`;
* theorems: `c09_paragraphs_independent` (prefix, independence, `wrap(b)` for empty indents, never fewer lines than
  paragraphs), `c09_line_ending_equivariance`, `wrap_fn_is_indent_plus_rest` + `c08_wrap_rest_depends_on_indent_widths_only`.
  Each was probed for vacuity (an appended `assert(false)` fails) and for need of its hypotheses (without "same emptiness of
  the indents" the C08 theorem fails — the sentinel word depends on it; without "unbordered" `split_concat` fails).

`dedent` and `indent` are the other place where the device applies. U8 proves `indent(s, p) == indent_spec(s, p)` (C19's further clauses
are lemmas over `indent_spec`), U9 proves of `dedent` a postcondition that determines the result from `str::lines(s)` and the margin length.
With two std facts — `char::is_whitespace('\\r')` (used for prefixes that contain a carriage return) and `str::lines` is `lines_c`: the `'\\n'`-separated pieces, each terminated piece without one `'\\r'` directly before its `'\\n'`,
the unterminated last piece as it is and dropped when empty (so, without carriage returns, `split_terminator('\\n')`: proved) — stated as axioms and checked on the
real functions by the bounded contract `A4.std_models` —, and the proved split / join lemmas both units share
(`prelude/split_chars.vrs`, `prelude/indent_spec.vrs`), C18's two corollaries become theorems (U9): `c18_dedent_idempotent_cr` (for *any* two
results the contract allows for `s` and for the first result: they are equal — for every `s` satisfying `kf4_free`, i.e. outside known finding
KF4's input class, carriage returns allowed; without that hypothesis the proof fails at exactly the step KF4 exploits; `c18_dedent_idempotent` is the
CR-free special case; key lemma `second_margin_empty` — a common margin of
the output lines, appended to the removed margin, would be a longer common margin of the input) and `c18_dedent_of_indent` (key lemma
`margin_of_mapped`: the margin of the indented lines is the prefix followed by the margin of the lines; for every `s` without carriage returns, as the statement says, and every whitespace `p` without
`'\\n'` — carriage returns in `p` are allowed: the trimmed prefix ends in no whitespace and `'\\r'` is whitespace (second std axiom, `cr_is_ws`), so no line of
the indented text ends in a carriage return and `str::lines` strips nothing from it; with a `'\\n'` in `p` the statement is false of the code, known finding KF8). All three carry a vacuity probe.
The bounded contract's KF4 class is the negation of `kf4_free`, computed on the input: a failure of idempotence outside it would contradict the theorem and is reported as a violation.

The same device does not reach C14 (idempotence of `fill`), C13, C15/C16's round trips or C17's agreement with `wrap`: they
compare runs on *different texts* whose relation goes through what the word stages compute, not just through how `wrap`
composes them.
""")
w("## 3. Trusted base and discharged obligations (global; each evidence file lists what it used)\n\nEntries marked *(discharged)* started as assumptions and are now proved or model-checked; they stay listed, with the per-property lists of §4 citing them, so that the reader sees what the property rests on and where it is established.\n")
for k in sorted(props.TRUSTED, key=lambda x: (x[0] != 'A', int(x[1:]))):
    v = props.TRUSTED[k]
    if k == 'R19':
        continue
    w(f"* **{k if k != 'R18' else 'R18, R19'}** {v[len(k)+1:] if v.startswith(k) else v}")
w("")
w("""## 4. Per property (generated from `tools/props.py`, which also feeds MANIFEST and the evidence)

**V** = Verus units on extracted code (unbounded); **K** = Kani; **B** = bounded exhaustive contracts on the real crate.
""")
for pid,cfg in props.PROPS.items():
    lvl=cfg['level']
    w(f"### {pid} — {titles[pid]} — level `{lvl}`")
    w(f"* **Units:** {', '.join(cfg['units']) or '—'}" + (f"; **Kani:** {', '.join(k['name'] + ('' if k.get('quick') else ' (thorough tier only, bounded)') for k in cfg.get('kani', []))}" if cfg.get('kani') else '') + f". **Assumptions:** {', '.join(cfg['trusted']) or '—'}.")
    if cfg.get('proved_part'): w(f"* **Proved (V/K):** {cfg['proved_part']}")
    if cfg.get('bounded_part'): w(f"* **Bounded (B):** {cfg['bounded_part']}")
    w(f"* {cfg['explanation']}")
    if pid in notes: w(f"* {notes[pid]}")
    w("")
w("""## 5. Genuine defects in the pinned tree, and known findings

All reproduced against the real crate. Each repair is one minimal unguarded `fix:` commit; the unedited upstream suite
passes with it in both feature sets.

| | failing input (real code) | cause | repair | commit | detected by |
|---|---|---|---|---|---|
| F1 C02 | `wrap("a\\nbb cc dd", width 6, subsequent_indent "    ", FirstFit)` → `"    bb cc"` (9 columns) | `line_widths[0]` always belonged to the initial indent | first element = subsequent width when `lines` is non-empty; sentinel word only for the very first line | 0acf110 | U11 (Verus: precondition of the line breaker) + B |
| F2 C08 | `wrap("foo\\n\\nbar", subsequent_indent "\\| ")` → `["foo","","\\| bar"]`; `wrap("", initial_indent "> ", break_words false)` → `[""]` | the empty-word-list arm pushed `""` | push the applicable indent | b50106f | U11 (Verus: loop invariant) + B |
| F3 C11 | `wrap("aaa bbb ccc-", 5)` → `["aaa","bbb c","cc-"]`; `find_words` yields `"bbb ccc-"` as one word | `next_back()` dropped a real opportunity when the end-of-text break had already been filtered | filter `idx == stripped.len()` instead | 1fdc8b7 | B |
| F4 C18 | `dedent("    foo\\n\\t\\n    bar")` unchanged; a second application dedents | a whitespace-only line narrowed the prefix | skip whitespace-only lines in the narrowing loop | 37ca7bb | B |
| F5 C20, C04 | `wrap_columns("\\u{ff28}", 1, 1, "", "", "")` panics | `column_width - display_width(line)` | `saturating_sub` | 27c0d0d | U5 (Verus: underflow) + B |

These are `fixed:` entries of `known_findings.json`; they suppress nothing, and reverting any of them is reported again
(seeds `revert_F1` … `revert_F5`).

Open known findings (reported as `KNOWN-FINDING`, class-tagged so that any *other* violation of the same property is
still a VIOLATION). An input class alone would be too coarse — a change that breaks the property on *further* inputs of the same
class would hide behind the finding (seed w11_C14_A did exactly that) — so each finding is also pinned to the **set of inputs** on
which it shows: for every contract, feature flavour and tier at the default seed, `known_findings.json` records how many inputs of
the scope fail in that class and an order-independent fingerprint of their case indices (`expected_sets`, written by
`tools/kfexpect.py` on the unchanged tree, by hand; `./check` never writes the file). A run whose class failures differ in count or
fingerprint reports a VIOLATION ("known finding KFx now shows on a different set of inputs") with one of them as replay. For other
seeds the sampled inputs differ, nothing is recorded, and the class tag alone decides.

* **KF1 (C02).** First-fit, `break_words` off, the Unicode separator, an indent that alone is wider than the width, and a rest of display width 0
  that still contains a break opportunity, e.g. `wrap("\\u{200b}\\u{ad}", Options::new(0).initial_indent("> ").break_words(false))`
  `== ["> \\u{200b}\\u{ad}"]`: the line is 2 columns at width 0 and the part after the indent is *two* fragments, so the
  letter of C02 is violated; but the whole overflow is the indent's and no arrangement is narrower. Not repaired: breaking
  between zero-width fragments would only add equally wide lines — not a patch a maintainer would accept.
* **KF2 (C15) / KF3 (C16).** `break_words` on (the default), a non-empty initial indent and a first word that fits on a
  line of its own but not beside that indent: `fill("ccc é", Options::new(3).initial_indent("#")) == "#\\nccc\\né"` (the indent
  alone on the first line); `unfill` then returns `" ccc é"` with a stray leading space, and `refill("#\\na", 3) == "# a"`.
  A two-line repair in `unfill` (no separator while the collected text is empty) made both contracts hold, but upstream's
  own test `refill::tests::unfill_only_prefixes_issue_466` pins the stray space (`unfill("######\\nfoo").0 == " foo"`), and the
  suite must pass unedited — so the repair was reverted and the finding recorded.
* **KF4 (C18).** A line whose own text ends in a carriage return directly before its line break: `dedent("a\\r\\r\\n b") == "a\\r\\n b"`,
  and `dedent` of that is `"a\\n b"`. `dedent` reads lines with `str::lines` (which drops one `"\\r\\n"` or `"\\n"`) and writes every
  line back followed by `"\\n"`, so the leftover `"\\r"` and the new `"\\n"` read as a CRLF the second time: the corollary
  "dedent is idempotent" fails on such input, although the margin rule (which U9 proves) holds on both applications. Found by the
  sampled long-string pass (the exhaustive alphabet had `"\\r\\n"` but no lone `"\\r"`). Not repaired: dropping the stray CR or
  preserving the original line endings both change documented behaviour.
* **KF5 (C05) / KF6 (C14).** A well-formed escape sequence that a word-level operation cuts in two: it contains a space and the
  ASCII-space separator is used (an OSC window title or hyperlink text, a CSI with an intermediate space), or it contains a
  hyphen between alphanumerics and the hyphen splitter is used (a hyperlink to a hyphenated URL).
  `wrap("\\x1b]0;a b\\x07cd", Options::new(3).word_separator(WordSeparator::AsciiSpace)) == ["\\x1b]0;a", "b\\x07cd"]` although the
  paragraph is 2 columns wide — the pieces are measured as cut-off sequences / plain text, so a paragraph that fits is not returned
  as one line (C05); and once the halves sit on different lines a second `fill` reads them as different text, so `fill` is not
  idempotent (C14). Not repaired: the ASCII separator is documented to split at every space, the hyphen splitter at every hyphen
  between alphanumerics; teaching them about escape sequences is a feature, not a minimal repair (the Unicode separator works on
  the stripped text and never splits a sequence at a space). The input class was first pointed out by sub-agents (seeds w4_C17_A,
  w6_C02_A). Both findings share one class tag (as do KF2 and KF3).

* **KF7 (C20).** A wrapped line (or gap) that ends inside an unterminated escape sequence:
  `wrap_columns("a\\x1b]0; b c d", 2, 12, "|", "|", "|") == ["|a\\x1b]0; b c d   |     |"]` — the line is 1 column wide, nothing protrudes, yet the
  row is 2 columns wide instead of 12: the open sequence swallows the padding and the gaps that follow it. The layout sentence of C20 holds
  (U5's postcondition, all inputs); its width corollary is proved for texts whose sequences are all terminated (`c20_equal_row_widths`) and
  is false of the pinned code otherwise. Found when that theorem was written: its hypothesis `wf` is exactly what the bounded alphabet had
  silently assumed, so the opener of an OSC sequence was added to it. Not repaired: no padding rule can fix a row whose cell leaves a
  sequence open (the terminal swallows the padding too).
* **KF8 (C18).** A whitespace prefix that contains a line break: `'\\n'` is a whitespace character, so "for every whitespace prefix p"
  includes it, but `dedent(indent("a", "\\n")) == "\\na"` while `dedent("a") == "a"`. `indent` writes the prefix in front of every line, which
  with a line break in it adds lines, and `dedent` keeps the number of lines. Found by an independent review of the hypotheses of U9's theorem
  `c18_dedent_of_indent` (it needs `!p.contains('\\n')`), confirmed on the real crate by the bounded contract (prefixes `"\\n"`, `" \\n "`). For every
  whitespace prefix *without* `'\\n'` — carriage returns and non-ASCII whitespace included — the corollary is proved. Not repaired: `indent` has no
  error path, and dropping the line break from the prefix silently is not a patch a maintainer would obviously accept.

## 6. Applicability statement

Levels claimed in MANIFEST: `proof` — C06, C07, C08, C09, C10, C11, C12, C18, C19, C20 (every clause of the statement is a discharged Verus
obligation or loop-free Kani fact, under the named assumptions, in the sense of §2.7); `other` — C01, C02, C03, C04, C05,
C13, C15, C16, C17 (named functions proved for all inputs, named remainder bounded); `exploration` — C14: the deductive
technique does not apply (relational over two calls of `fill`; no contract within reach expresses it); it is claimed only
through its bounded executable contract, labelled bounded. `not_applicable` in MANIFEST is empty because every property
has a check; a reader who counts only deductive results should read C14 as not applicable. Reasons for every bounded remainder are the
measured ones of §1: Kani cannot finish `find_words` / `wrap` on a 3-byte string or a 3-fragment optimal-fit; optimality needs real arithmetic;
relational properties need a functional specification (done for `wrap` in U11, which gives C09 and C08, and for `dedent` / `indent` in U9 / U8, which gives C18's two corollaries; `fill`'s idempotence and the
unfill/refill round trips would need the inverse direction as well); Verus has no float theory.
Creusot, Prusti and Aeneas are not installed; nothing here depends on them.

## 7. Design-round prototypes

The ten prototypes of the design round (`notes/prototypes/`, each `verus <file>`; U1, U2, U3, U4, U5, U6/U7, U8, U10, U11,
U12) fixed the target text of the first side-cars; porting them through the extractor was mechanical. The pinned text of
`wrap.rs`/`columns.rs` was rejected exactly at F1, F2 and F5 while the repaired text verified. `notes/experiments/`
holds the fidelity audit of the prototypes and the first extraction experiment; `notes/candidate-fixes.diff` the five
repairs before they were committed.

## 8. Robustness campaigns

* **Mutation of each unit** in scratch copies at authoring time (expression-level mutants of the extracted functions):
  every unit rejects its mutants; structural mutants that the merge cannot follow end *undecided* and are left to BEC.
* **Harmless refactors** (`tools/harmless.py`, 25 behaviour-preserving edits: hoisted `let`s, swapped independent
  statements / conjuncts / declarations, flipped comparisons, inverted `if/else`, expanded `+=`, literal for const,
  `f64::max` call form): **0 false alarms**, 23 verify, 2 undecided (`f64::max(a, b)` call form has no rule; an inverted
  `if/else` whose both branches carry annotations loses an anchor).
* **The unchanged tree**: with the final contracts every quick command exits 0 for `VERIF_SEED` 1, 2 and 5 and every thorough command for seed 1
  (about 3 min for the 20 quick checks run three at a time; the thorough tier takes between 20 s and 10 min per property, C07's bounded Kani harness being the longest);
  the harness's own dry run (`vp check`: fresh restore, no network, quick tier, evidence rewritten) reported nothing.
* **Rename campaign** (`tools/renames.py`, `harmless/RENAMES.json`): every `let`-bound local of every function under contract renamed
  (137 single renames): 94 verify unchanged (the merge follows consistent renames of locals, §2.1), 43 undecided, **0 alarms**.
* **Small edits** (`harmless/h3_*`: 16 one-minute clean-ups — a renamed local, a flipped comparison, a hoisted sub-expression — each written by a sub-agent
  for one function, each applied to `/repo` and run against all 20 quick checks): 15 leave every check at exit 0 (Verus re-verifies the edited function,
  the rename-following merge included), 1 is undecided for two properties (a rename that un-shadows an inner variable: the annotation's name
  then means the outer one, which the type checker rejects), **0 alarms**.
* **Independent refactors** (`tools/harmless2.py`, `harmless/`: 12 behaviour-preserving refactors of 15–35 changed lines each,
  written by sub-agents that saw only the source file and were asked for an ordinary maintainer's tidy-up — renamed locals,
  loops turned into `find`/`matches!`, hoisted values, extracted helpers, inverted branches; every public function of the crate
  is touched by at least one), each applied to `/repo` and run against **all 20 quick checks**: **0 false alarms**
  (`harmless/RESULTS.md`). The price of annotating in place shows here: every one of them leaves the Verus units that extract
  the refactored function *undecided* (exit 2: the code an annotation was anchored to was restructured, a rule no longer matches,
  or a rename could not be followed because it came with such a restructuring) until the side-car is re-anchored (`vx.py derive` after adjusting the names); the bounded
  contracts of the same property still ran and passed on the refactored code, and every property whose units do not touch the
  refactored function still exits 0. An *undecided* is reported as such — never as a violation, never as a pass.
* **SMT-seed stability** (`tools/stability.py`): all 22 units verify under Z3 random seeds 1–8 (largest per-function rlimit counts: 46 M for U11, which runs with `//@rlimit 30`, 33 M for U14 and 30 M for U5, which run with
  `//@rlimit 20`, as do U13 and U24; every other unit stays below 15 M under the default limit of 30 M). U1 was restructured around an opaque state predicate with step
  lemmas after it failed under two seeds; a U11 lemma was split in three, U24's fill loop (126 M → 6 M) and U13's collecting loop (which diverged under
  seed 5) were rebuilt around opaque predicates with step lemmas for the same reason.
* **Seeded property-breaking changes**: §11.
* **Fresh-copy run** (`vp check`, the sandbox's own rehearsal: restore a fresh copy offline, run `MANIFEST.setup_cmd`, then every quick command with its evidence file removed): nothing needed attention (repeated after every larger change; the last one after the final commit of this round).
""")
w("""## 9. Departures from the original plan

* The hand-written anchor table was replaced by the three-way merge of §2.1 (skeleton / side-car / current source).
* The fidelity guard (compiling the rewritten functions into BEC) was not built — see §2.2 for what replaces it.
* R16 (closure conversion) was a stretch goal; it is built and carries U13, U14, U15 and U20.
* `dedent` (U9), `unfill` (U18), `refill` (U21), `fill` (in U12), `split_points` (U16), the algorithm dispatch (U17) and
  `strip_ansi_escape_sequences` (in U3) were outside the plan's reach estimate and are under contract.
* A10 (char-boundary safety of wrap's slices; `from_utf8(..).unwrap()` in `fill_inplace`) is discharged, not assumed; so are A2 (Kani K1) and, as far as safety goes, A7 (`LineNumbers`, U23 through R17).
* `options.rs` (U22) and `LineNumbers` (U23) are under contract as well; neither was in the plan.
* K2's bound is smaller than planned (quarter-integer widths, ≈ 10 min) and it runs in the thorough tier only; K4 (Kani on `smawk`) was not built (see the last bullet).
* C18 rose from `exploration` to `other` (margin rule and output shape proved; the two corollaries bounded) and then to `proof` (both corollaries are theorems over the postconditions, idempotence on exactly the complement of KF4's class); C11 from `other` to `proof` (completeness of the Unicode word finder proved); C16 from `exploration` to `other`;
  C08 and C09 from `other` to `proof` (functional postcondition of `wrap`, §2.9).
* A8 (termination of `display_width`) and A16 (float exactness, by Kani K3) are discharged; two std facts about `str::split` are proved for a scan model instead of assumed.
* The merge follows consistent renames of bound locals (§2.1); it did not in the plan.
* The `smawk` dependency is verified (U24) instead of assumed (A6); the plan listed its contract under "assumed contracts on dependencies".

## 10. Reports on the unchanged tree and what was done (false alarms corrected, genuine findings recorded)

| check | what it reported | verdict | what was done |
|---|---|---|---|
| C04 BEC | `wrap_columns` panics with "capacity overflow" at width `usize::MAX` | check wrong: this is the memory exemption the property states | `wrap_columns` is exercised only for widths <= 100 000 |
| C01 BEC | a slice ends in a space with the custom splitter | check wrong: the checker's own custom splitter put a split point directly after a space inside a Unicode-separator word; C01 allows that only for force-breaking | the test splitter never splits directly after a space |
| C01 BEC (thorough) | "slice ends in a space" for a text where a forced break and a trailing-space trim explain the same line differently | check wrong: the clause demanded one particular explanation | the clause is existential over the admissible explanations |
| C02 BEC | `"aa-"` is 3 columns at width 2 with the hyphen-inserting custom splitter | check wrong: C02 quantifies over the hyphen / no-hyphen splitters only | custom splitter removed from C02's grid |
| C02 BEC | indent wider than the width + zero-width rest with a break opportunity | **code violates the letter of C02** | known finding KF1 (§5), class-tagged |
| C15/C16 BEC | round trip fails with `break_words` on and an indent-only first line | **code violates C15/C16** | repair tried, upstream test pins the behaviour, reverted; known findings KF2/KF3 (§5) |
| C18 BEC (sampled long-string pass) | `dedent` not idempotent on `"a\\r\\r\\n b"` | **code violates the corollary stated in C18** | known finding KF4 (§5), class-tagged |
| C18 BEC (prefixes `"\\n"`, `" \\n "` added after a review of the hypothesis `!p.contains('\\n')` of `c18_dedent_of_indent`) | `dedent(indent("a", "\\n")) == "\\na"`, not `dedent("a")` | **code violates the letter of C18's second corollary** | known finding KF8 (§5), class-tagged and set-pinned; the theorem is stated for prefixes without `'\\n'` |
| C02 BEC (broad alphabet + OSC title with a space) | a line `indent ++ "\\r\\x1b]0;a"` too wide although it holds "more than one non-zero-width character" | check wrong: it counted the characters hidden inside the (cut-off) sequence as visible; the part after the indent has one visible character, C02's exception | visible characters are counted the way C10 defines the display width, also for sequences that are cut short |
| C20 BEC (the opener of an unterminated OSC sequence added to the column alphabet, when the width theorem's hypothesis was written down) | a row whose cell leaves a sequence open is narrower than gaps + columns + remainder | **code violates the letter of C20's second sentence** | known finding KF7 (§5), class-tagged and set-pinned; the theorem is stated for texts that do not end inside a sequence |
| C05, C14 BEC (broad alphabet with an OSC title containing a space and a hyperlink with a hyphenated URL) | a fitting paragraph with such a sequence is returned as two lines; `fill` is then not idempotent | **code violates the letter of C05 / C14** | known findings KF5, KF6 (§5), one class tag |
| Verus → property mapping | a failed `requires` of a prelude callee was attributed to C04 only | machinery wrong | tags are read on any line of the failing span; `requires` lines carry tags |
| probe | a `//@probe` inside `({ let …;` produced a syntax error that was reported as vacuity | machinery wrong | probe compile errors are distinguished from a verifying probe |
| C03 BEC (a trial contract `C03.optimal_fit.minimal_cost.repeated_widths`, written after seed `w15_C03_A`: random fragments with line-width lists of 3–4 entries drawn from two values) | `[3,2,8,0,3,4,7]`-wide fragments, line widths `[7, 7, 26]`, penalties `(1000, 2500, 4, 25, 25)`: optimal-fit returns cost 5501, the minimum is 4102 | check wrong: it demanded more than C03 quantifies over ("all one- and two-element line-width lists"); with a third entry the target width of a line depends on its number beyond the second line, the cost matrix is no longer totally monotone and SMAWK's column minima are not the minima — outside the property | contract removed again (never committed); the one- and two-element contracts stay; `w15_C03_A` is reported by U2's cost-model obligation (`cost == line_cost(…)`), with no failing input |
| U1 / U11 / U13 / U24 | rlimit under some SMT seeds (would have been *undecided*, not an alarm) | proof brittle | opaque state predicate + step lemmas; lemma split |

No correct check was loosened: every change above either fixes the checker's own test input or narrows a check to what
the property states.

## 11. Seeded changes and what catches them

`seeded/` holds 189 changes that compile, pass the upstream suite in both feature sets, and break a property: the 5 reverted
fixes and 184 produced by independent sub-agents given **only** the property text and a scratch worktree:

* waves 1–2 (40): two per property;
* wave 3 (20): cooperating edits, indirect helpers, wrong fast paths;
* waves 4–5 (23): changes that need something specific to manifest, avoiding the most obvious single-token edits;
* wave 6 (20): with a hint which file to change (the one seed w6_C07_A carries the same patch as w6_C11_A and was relabelled C11 — it
  is counted once per directory, see the table);
* wave 7 (12): with the ideas that earlier waves over-used forbidden (ASCII width shortcuts, `trim_end()`, byte lengths of indents, an
  early return in `refill`);
* wave 8 (13): changes that only show with a non-default option value or feature set — all reported without any strengthening;
* wave 9 (15): a longer list of forbidden ideas — again all reported as the checks stood;
* wave 10 (14): changes *disguised as refactors* — renamed locals, restructured loops, extracted helpers, with one of the "equivalent"
  rewrites not equivalent — all reported as the checks stood: where the restructuring leaves the Verus unit undecided, the bounded
  contracts of the same property decide;
* wave 11 (6): more of that kind for C03, C04, C10, C13, C14, C16 — three misses on first contact, see the table;
* wave 12 (7): aimed at the clauses that were, at that time, decided by bounded enumeration only (C01's trailing-space sentence, C02 at text level,
  C05's first sentence, C13 end to end, C15's round trip, C17's agreement with `wrap`, C18's corollaries — the first and the last have since
  been proved) — six reported as the
  checks stood (two of them by a Verus obligation all the same: U15's `break_apart` postcondition, U22's conversion contract), one
  miss, see the table;
* wave 13 (3): aimed at what was proved last (C01's trailing-space chain outside `wrap.rs`, the `find_words` dispatcher, `indent` on unusual
  line structures) — all reported as the checks stood. A fourth agent, asked to break C18's corollaries, produced exactly the patch that
  reverts fix F4 (seed `revert_F4`); it is not counted twice;
* wave 14 (4): changes dressed as *performance optimisations* (substring search instead of per-character decoding in `display_width`, a byte-window
  scan in the hyphen splitter, a cached blank tail in `wrap_columns`, back-to-front filling of the optimal-fit result keyed to a
  disabled line counter) for C10, C12, C20, C06 — all reported as the checks stood (the last one also by U23's `get` postcondition).
* wave 15 (3): C03 (the short-last-line threshold hoisted out of the cost closure and computed from the default width: only wrong when a
  list of three widths makes the last line's own target differ from the default — reported by U2's obligation `cost == line_cost(…)`, no failing
  input, see §10), C04 (`column_width - display_width(cell)` without saturation in `wrap_columns`: panics when a double-width character or an
  unbreakable word overflows its column — U5's overflow obligation and the bounded totality contracts), C17 (`fill_inplace` folding its scratch
  `line_offset` into `offset`: every wrapped line of an earlier paragraph is counted twice — bounded contract; U10 ends undecided because the loop
  invariant names the removed local) — all reported as the checks stood.
* wave 16 (4): C02 (two cooperating edits: `break_apart` caches every non-final piece as a full line, `break_words` gives the last piece the remainder — a
  following word then fits into phantom space behind wide characters; reported as the checks stood, U15's piece-width postcondition and the bounded
  contracts), C13, C14, C15 — three misses on first contact, see the table below.

(`seeded_prompts/` keeps one example of the prompt of each wave style, and of the two harmless campaigns.)

Each change was confirmed by `tools/seedverify.sh` (patch applies; suite passes in both feature sets; its demonstration fails with
the patch and passes without). `tools/seedtest.py` applies each to `/repo`, runs the checks of the properties it breaks, and undoes
it; `seeded/RESULTS.json` is its output and **`seeded/RESULTS.md` the full table** (seed, property, files changed, Verus obligations
failed, BEC contracts failed, undecided units, verdict). After every change to the checks the whole set is run again (last: 213 of
213 (change, property) pairs reported; `tools/seedpar.py` does the same on scratch copies, several at a time, without touching `/repo`).

Misses on first contact (and one relabelled seed) and what was strengthened (never by weakening a check):

| wave | seed | why it was missed | strengthening |
|---|---|---|---|
| 1 | several first-wave seeds | narrow alphabets; C03 had no text-level contract; a Verus failure on a prelude `requires` was attributed to C04 only | broader alphabets (中 — UTF-8 ending in 0xAD —, NBSP, U+3000, CSI finals `~`/`@`, OSC); C03 text-level contract; property tags on clauses |
| 2 | C07 / C15 seeds | C07's text oracle knew no hyphen splitter; unfill vocabulary had no wide words | hyphen splitter in the C07 text oracle; wide words (你好) in the unfill / refill vocabulary |
| 3 | three w3 seeds | options only passed by value; no ANSI-coloured indent; no OSC symbols in the word alphabet | options also by reference; an ANSI-coloured indent pair; OSC symbols |
| 4 | w4_C17_A (display-width fast path in `fill_inplace`) | no ESC in `fill_inplace`'s alphabet (a bare ESC swallows the following space when the whole line is measured) | bare ESC and a CSI sequence added |
| 4 | w4_C12_A (ASCII-is-one-column in `break_apart`) | no ASCII control character in force-broken words; Verus undecided (`char::is_ascii` had no spec) | tab added; `char::is_ascii` specified — now a Verus violation as well |
| 4 | w4_C13_A (`trim_end()` in the shortcut) | coloured texts were single-space-joined with no trailing whitespace | joiners {" ", "  ", "\\n"} × trailing {"", " ", tab, CR, U+3000} |
| 5 | w5_C07_A (`dedup()` of the width list in `WrapAlgorithm::wrap`) | the public dispatch was checked for C06 (partition) only; three or more listed widths never reached it | BEC contracts `C07.dispatch.first_fit` / `C03.dispatch.optimal_fit` (dispatch == algorithm called directly, width lists with equal neighbours); U17 now proves that the words and every listed width reach the algorithm unchanged |
| 5 | w5_C20_A (ASCII fast path for cell widths in a new helper of `columns.rs`) | no escape sequence or zero-width character in the column alphabet; Verus undecided (unknown helper function) | `ESC[1m`, tab and a combining mark added to the column alphabet |
| 5 | w5_C09_A (`split('\\n')` + `strip_suffix('\\r')` for CRLF) | CRLF only ran over an alphabet without a lone `\\r`; every other suite used LF | lone `\\r` in the CRLF alphabet; the broad-alphabet and random passes of every wrap suite now run each option combination with both line endings |
| 6 | w6_C02_A (last piece of a split word gets `word.width - widths of the earlier pieces`) | only wrong when a split point falls inside an escape sequence; no sequence with a hyphen in the alphabets | hyperlink with a hyphenated URL added to the broad alphabet (which also surfaced known findings KF5/KF6) |
| 6 | w6_C07_A (same patch as w6_C11_A: ASCII fast path for the width cached by `Word::from`) | not a miss: `split_words` re-measures every word, so `wrap` is unaffected and first-fit still follows the greedy rule for the widths its fragments report; the broken property is C11 | seed relabelled (C11, which reports it); a tab was added to the core wrap alphabet all the same |
| 7 | w7_C05_A (shortcut extended to indented lines, dropping a zero-width indent) | C05 / C09 / C14 ran only the four ASCII indent pairs | the broad-alphabet and random passes of every wrap suite now run every indent pair (multi-byte, zero-width, ANSI-coloured, wider than the width) with both line endings |
| 7 | w7_C15_A (`unfill` stops measuring lines once the common indent is empty) | round-trip paragraphs had at most three words in the quick tier, so never four lines | a pass over fixed paragraphs of 6–8 words (widest line first / last / in the middle) |
| 11 | w11_C10_A (`find` with a stale `prev` initialised to ESC: an OSC whose payload starts with `\\` ends at once) | no `]` or BEL on their own in C10's alphabet, so `ESC ] \\` could not be formed; Verus undecided (loop turned into `find`) | `]` and BEL added to the display-width alphabet |
| 11 | w11_C14_A (tail piece of a split word gets `word.width` minus the head widths — wrong only when a split point lies inside an escape sequence) | every failing input belongs to the input class of known finding KF6 and was suppressed with it | known findings are pinned to the recorded set of failing inputs (§5): a different set is a violation |
| 11 | w11_C16_A (`matches!(ch, '*'..='/')` makes `,` and `.` prefix characters) | no word of the unfill / refill vocabulary starts with `.` or `,` | `.x` and `,yy` in the vocabulary, `.` and `,` in the unfill alphabet |
| 12 | w12_C15_A (`impl From<&Options>` rebuilt through the setters, forgetting `line_ending`: `fill(t, &options)` silently uses LF) | U22 proves that conversion copies every option and rejects the change — but U22 was only part of the checks of C02, C04, C08, C09; the bounded contracts pass `Options` by value, which bypasses the conversion | U22 is now part of the check of every property whose entry point takes `Into<Options>` (C01 C05 C13 C15 C16 C20 as well); the C15 / C16 bounded contracts pass `&Options` |
| 16 | w16_C15_A (`unfill` compares the prefixes of lines three and later with a remembered copy of line two's prefix instead of the running common indent) | needs four lines whose prefixes shrink and then differ past the shrunk indent — at least ten characters, beyond the exhaustive bound of the structural contract and not hit by its random pass; U18 ends undecided (the zip rewrite rule names the zipped expression) | bounded contract `C15.unfill.structural.lines`: every text of up to five (thorough: six) whole LINES drawn from ten lines with changing prefixes |
| 16 | w16_C13_A (the OSC skipper stops at any backslash, not only at `ESC \\`) | no backslash inside an escape-sequence payload in C13's coloured texts; U3 ends undecided (loop replaced by `find`, lost anchor) | the hyperlink of the coloured-text generator now carries a Windows path (`file://C:\\t`) |
| 16 | w16_C14_A (first-fit reserves the penalty's width only for fragments followed by whitespace — a hyphenated line may overflow by one column and the second `fill` breaks it again) | C14 had no deductive part and its bounded grid has no hyphen-inserting splitter at a width where the overflow shows; U1's greedy clauses (which reject the change) were tagged C07 / C02 only | U1 is part of C14's check and its greedy clauses carry the C14 tag: the single-call fact idempotence under first-fit rests on (every multi-fragment line fits, penalty included) is a discharged obligation; the property itself stays bounded |

**Verus on its own** (`tools/seedverus.py`, `seeded/VERUS.json`: each change applied to a scratch copy, only the Verus units run):
a Verus obligation rejects 76 of the 189 changes (1 of the 20 disguised as refactors); the others end *undecided* in Verus (a new construct without a spec, a
loop rewritten so that a rewrite rule no longer applies, a lost anchor) or touch code whose contract does not see them
(`ch_width`'s table — decided by the exhaustive scalar enumeration and Kani K1). Three things raised that share (from 29 to 42 of the first 77 changes):
(i) specs for the std functions such edits typically reach for (`str::trim_end` / `trim_start` / `trim`, `char::is_ascii`,
`u8::is_ascii_whitespace`, `String::with_capacity`; `prelude/std_more.vrs`) — seven seeds replace
`trim_end_matches(' ')` by `trim_end()`; (ii) the precondition on the line breaker that, with `break_words`, a first line
narrower than the rest starts with a zero-width fragment (three independent agents weakened that very condition to a
byte-length comparison); (iii) unit U22 for `options.rs`. Deliberately *not* given a spec: functions whose result
could only be left unconstrained (`str::contains` with a generic pattern) — an unconstrained guard would turn a harmless
fast path into an unprovable obligation, i.e. a false alarm instead of an honest *undecided*.
""")
# the "serves" column of the unit table in section 0 is derived from tools/props.py (units and Kani harnesses per property)
def _serves(uid):
    ps = []
    for pid, cfg in props.PROPS.items():
        if uid in cfg.get('units', []) or any(k['name'].startswith(uid + '.') for k in cfg.get('kani', [])):
            ps.append(pid)
    return ', '.join(sorted(ps))
_txt = '\n'.join(out)
_txt = re.sub(r'^(  \| ([UK]\d+) \|.*\| )[^|]*\|$', lambda m: m.group(1) + _serves(m.group(2)) + ' |', _txt, flags=re.M)
# counts quoted in the text must agree with the campaign files (generation fails on a stale number)
import os as _os
_sd = [d for d in _os.listdir('/verif/seeded') if _os.path.isdir(_os.path.join('/verif/seeded', d))]
_res = json.load(open('/verif/seeded/RESULTS.json')); _ver = json.load(open('/verif/seeded/VERUS.json'))
_pairs = sum(len(v['breaks']) for v in _res.values())
_caught = sum(1 for v in _res.values() for p in v['breaks'] if v['checks'][p]['exit'] == 1)
_valone = sum(1 for v in _ver.values() if any(isinstance(r, dict) and r.get('status') == 'violation' for r in v.values()))
_units = len([f for f in _os.listdir('/verif/contracts') if re.match(r'u\d+_.*\.vrs$', f)])
for _needle in (f'{len(_sd)} seeded property-breaking changes', f'`seeded/` holds {len(_sd)} changes', f'fixes and {len(_sd) - 5} produced by independent',
                f'5 reverted fixes + {len(_sd) - 5} from independent', f'(last: {_caught} of\n{_pairs} (change, property) pairs', f'rejects {_valone} of the {len(_sd)} changes'):
    assert _needle in _txt, 'stale count in DESIGN text: expected ' + repr(_needle)
assert set(_res) == set(_sd) == set(_ver), 'campaign files and seeded/ disagree'
assert _caught == _pairs, 'a seeded change is not reported'
out = _txt.split('\n')
open('/verif/DESIGN.md','w').write('\n'.join(out))
print(len('\n'.join(out).split('\n')),'lines')
