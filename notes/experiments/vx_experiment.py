#!/usr/bin/env python3
"""Design-round feasibility experiment (NOT the framework): can the verified text be regenerated
mechanically from /repo/src by (1) locating items with a small lexer, (2) applying token-level rewrite
rules with holes, (3) injecting contract clauses at structural anchors?"""
import re, sys, json

# ---------------------------------------------------------------- lexer
PUNCT3 = ['..=', '<<=', '>>=', '...']
PUNCT2 = ['+=', '-=', '*=', '/=', '->', '=>', '::', '&&', '||', '==', '!=', '<=', '>=', '..', '<<', '>>', '|=', '&=', '^=', '%=']

class Tok:
    __slots__ = ('kind', 'text')
    def __init__(self, kind, text): self.kind, self.text = kind, text
    def __repr__(self): return f'{self.kind}:{self.text!r}'

def lex(src):
    toks, i, n = [], 0, len(src)
    while i < n:
        c = src[i]
        if c.isspace():
            j = i
            while j < n and src[j].isspace(): j += 1
            toks.append(Tok('ws', src[i:j])); i = j
        elif src.startswith('//', i):
            j = src.find('\n', i); j = n if j < 0 else j
            toks.append(Tok('comment', src[i:j])); i = j
        elif src.startswith('/*', i):
            depth, j = 1, i + 2
            while depth and j < n:
                if src.startswith('/*', j): depth += 1; j += 2
                elif src.startswith('*/', j): depth -= 1; j += 2
                else: j += 1
            toks.append(Tok('comment', src[i:j])); i = j
        elif c == '"' or (c == 'b' and src.startswith('b"', i)):
            j = i + (2 if c == 'b' else 1)
            while src[j] != '"':
                j += 2 if src[j] == '\\' else 1
            toks.append(Tok('str', src[i:j + 1])); i = j + 1
        elif re.match(r'b?r#*"', src[i:i + 6] or ''):
            m = re.match(r'b?r(#*)"', src[i:])
            end = src.find('"' + m.group(1), i + len(m.group(0)))
            j = end + 1 + len(m.group(1))
            toks.append(Tok('str', src[i:j])); i = j
        elif c == "'" or (c == 'b' and src.startswith("b'", i)):
            k = i + (1 if c == 'b' else 0)
            # char literal or lifetime?
            m = re.match(r"'(\\.[^']*|[^'\\])'", src[k:])
            if m:
                j = k + len(m.group(0)); toks.append(Tok('char', src[i:j])); i = j
            else:
                m = re.match(r"'[A-Za-z_][A-Za-z0-9_]*", src[k:])
                j = k + len(m.group(0)); toks.append(Tok('lifetime', src[i:j])); i = j
        elif c.isalpha() or c == '_':
            j = i
            while j < n and (src[j].isalnum() or src[j] == '_'): j += 1
            toks.append(Tok('ident', src[i:j])); i = j
        elif c.isdigit():
            m = re.match(r'[0-9][0-9_]*(\.[0-9][0-9_]*)?([eE][+-]?[0-9]+)?[a-z0-9_]*', src[i:])
            # do not swallow a range operator: "0..n"
            t = m.group(0)
            if '.' in t and src.startswith('..', i + t.index('.')):
                t = t[:t.index('.')]
            toks.append(Tok('num', t)); i += len(t)
        else:
            for p in PUNCT3 + PUNCT2:
                if src.startswith(p, i):
                    toks.append(Tok('punct', p)); i += len(p); break
            else:
                toks.append(Tok('punct', c)); i += 1
    return toks

def text(toks): return ''.join(t.text for t in toks)
def sig(toks): return [k for k, t in enumerate(toks) if t.kind not in ('ws', 'comment')]

OPEN, CLOSE = {'(': ')', '[': ']', '{': '}'}, {')': '(', ']': '[', '}': '{'}

def match_close(toks, i):
    """index of the token closing the bracket opened at toks[i]"""
    depth = 0
    for j in range(i, len(toks)):
        t = toks[j]
        if t.kind == 'punct' and t.text in OPEN: depth += 1
        elif t.kind == 'punct' and t.text in CLOSE:
            depth -= 1
            if depth == 0: return j
    raise ValueError('unbalanced')

# ---------------------------------------------------------------- item finder
def find_item(toks, kw, name, after=0):
    """span [a, b) of `kw name ... { ... }` (fn / trait / struct / impl) including leading attrs, vis."""
    s = sig(toks)
    for p in range(len(s) - 1):
        if s[p] < after: continue
        if toks[s[p]].text == kw and toks[s[p + 1]].text == name:
            # body start: first '{' or ';' at depth 0 after the name
            j = s[p + 1]; depth = 0
            while True:
                j += 1; t = toks[j]
                if t.kind == 'punct' and t.text in '([': depth += 1
                elif t.kind == 'punct' and t.text in ')]': depth -= 1
                elif t.kind == 'punct' and t.text == '{' and depth == 0: break
                elif t.kind == 'punct' and t.text == ';' and depth == 0: return (s[p], j + 1, None)
            end = match_close(toks, j)
            # walk back over visibility
            a = s[p]; q = p - 1
            while q >= 0 and (toks[s[q]].text in ('pub', 'crate', 'const', 'unsafe') or
                              (toks[s[q]].text == ')' and toks[s[q - 1]].text == 'crate')):
                if toks[s[q]].text == ')': q -= 3          # pub ( crate )
                else: q -= 1
                a = s[q + 1]
            return (a, end + 1, j)
    raise KeyError(f'{kw} {name} not found')

# ---------------------------------------------------------------- rewrite rules
def parse_pattern(p):
    out = []
    for part in re.split(r'(\{[a-z_]+:[a-z]+\})', p):
        if not part: continue
        m = re.match(r'\{([a-z_]+):([a-z]+)\}', part)
        if m: out.append(('hole', m.group(1), m.group(2)))
        else: out += [('lit', t.text) for t in lex(part) if t.kind != 'ws']
    return out

POSTFIX_OK = lambda t: t.kind in ('ident', 'num') or (t.kind == 'punct' and t.text in ('.', '::', '?'))

def back_postfix(toks, s, p):
    """s: significant indices; p: position in s of the last token of the chain; returns start position"""
    q = p
    while q >= 0:
        t = toks[s[q]]
        if t.kind == 'punct' and t.text in (')', ']'):
            depth = 0
            while True:
                tt = toks[s[q]]
                if tt.kind == 'punct' and tt.text in CLOSE: depth += 1
                elif tt.kind == 'punct' and tt.text in OPEN: depth -= 1
                if depth == 0: break
                q -= 1
            q -= 1
        elif POSTFIX_OK(t): q -= 1
        else: break
    return q + 1

def apply_rule(toks, pattern, template, only=None, log=None, name=''):
    pat = parse_pattern(pattern)
    lead = pat[0][0] == 'hole' and pat[0][2] == 'postfix'
    body = pat[1:] if lead else pat
    n_applied = 0
    while True:
        s = sig(toks); found = None
        for p0 in range(len(s)):
            p, binds, ok = p0, {}, True
            for k, el in enumerate(body):
                if p >= len(s): ok = False; break
                if el[0] == 'lit':
                    if toks[s[p]].text != el[1]: ok = False; break
                    p += 1
                else:
                    _, hn, hk = el
                    if hk == 'ident':
                        if toks[s[p]].kind != 'ident': ok = False; break
                        binds[hn] = (s[p], s[p] + 1); p += 1
                    elif hk == 'expr':
                        nxt = body[k + 1][1]; depth = 0; q = p
                        while q < len(s):
                            t = toks[s[q]]
                            if depth == 0 and t.text == nxt and t.kind == 'punct': break
                            if t.kind == 'punct' and t.text in OPEN: depth += 1
                            elif t.kind == 'punct' and t.text in CLOSE:
                                depth -= 1
                                if depth < 0: break
                            q += 1
                        if q >= len(s) or depth != 0 or q == p: ok = False; break
                        binds[hn] = (s[p], s[q - 1] + 1); p = q
            if not ok: continue
            a = s[p0]
            if lead:
                st = back_postfix(toks, s, p0 - 1)
                if st > p0 - 1: continue
                binds[pat[0][1]] = (s[st], s[p0 - 1] + 1); a = s[st]
            if only and not only({k: text(toks[x:y]) for k, (x, y) in binds.items()}): continue
            found = (a, s[p - 1] + 1, binds); break
        if not found: break
        a, b, binds = found
        vals = {k: text(toks[x:y]).strip() for k, (x, y) in binds.items()}
        new = template
        for k, v in vals.items(): new = new.replace('{' + k + '}', v)
        if log is not None: log.append({'rule': name, 'before': text(toks[a:b]), 'after': new})
        toks = toks[:a] + lex(new) + toks[b:]
        n_applied += 1
        if n_applied > 200: raise RuntimeError('rule loops: ' + name)
    return toks, n_applied

# ---------------------------------------------------------------- structural anchors
def block_structure(toks, body_open):
    """loops (in source order) inside the fn body: list of dict(kw, header_start, body_open, body_close, ifs)"""
    end = match_close(toks, body_open)
    loops = []
    s = [k for k in sig(toks) if body_open < k < end]
    for k in s:
        t = toks[k]
        if t.kind == 'ident' and t.text in ('for', 'while', 'loop'):
            j = k; depth = 0
            while True:
                j += 1; tt = toks[j]
                if tt.kind == 'punct' and tt.text in '([': depth += 1
                elif tt.kind == 'punct' and tt.text in ')]': depth -= 1
                elif tt.kind == 'punct' and tt.text == '{' and depth == 0: break
            loops.append({'kw': k, 'open': j, 'close': match_close(toks, j)})
    for L in loops:
        L['ifs'] = []
        for k in s:
            if L['open'] < k < L['close'] and toks[k].kind == 'ident' and toks[k].text == 'if':
                # only ifs directly in this loop (not in a nested loop)
                if any(M is not L and L['open'] < M['open'] < k < M['close'] for M in loops): continue
                j = k; depth = 0
                while True:
                    j += 1; tt = toks[j]
                    if tt.kind == 'punct' and tt.text in '([': depth += 1
                    elif tt.kind == 'punct' and tt.text in ')]': depth -= 1
                    elif tt.kind == 'punct' and tt.text == '{' and depth == 0: break
                L['ifs'].append({'open': j, 'close': match_close(toks, j)})
    return loops, end

def inject(toks, body_open, clauses):
    """clauses: list of (anchor, text). Insert from the back so indices stay valid."""
    loops, body_close = block_structure(toks, body_open)
    ins = []
    for anchor, txt in clauses:
        m = re.match(r'loop(\d+)\.(.*)', anchor)
        if anchor == 'fn.spec': pos = body_open
        elif anchor == 'body.start': pos = body_open + 1
        elif anchor == 'body.before_tail':
            # before the last significant expression statement of the body: after the last ';' or '}' at depth 1
            s = [k for k in sig(toks) if body_open < k < body_close]
            depth = 0; last = body_open
            for k in s:
                t = toks[k]
                if t.kind == 'punct' and t.text in OPEN: depth += 1
                elif t.kind == 'punct' and t.text in CLOSE:
                    depth -= 1
                    if depth == 0 and t.text == '}': last = k
                elif t.kind == 'punct' and t.text == ';' and depth == 0: last = k
            pos = last + 1
        elif m:
            L = loops[int(m.group(1))]; what = m.group(2)
            mi = re.match(r'if(\d+)\.then\.end', what)
            if what == 'spec': pos = L['open']
            elif what == 'before': pos = L['kw']
            elif what == 'body.start': pos = L['open'] + 1
            elif what == 'body.end': pos = L['close']
            elif mi: pos = L['ifs'][int(mi.group(1))]['close']
            else: raise KeyError(anchor)
        else: raise KeyError(anchor)
        ins.append((pos, txt))
    for pos, txt in sorted(ins, key=lambda x: -x[0]):
        toks = toks[:pos] + [Tok('inj', '\n' + txt + '\n')] + toks[pos:]
    return toks

def strip_docs_attrs(toks):
    out = []; k = 0
    while k < len(toks):
        t = toks[k]
        if t.kind == 'comment' and (t.text.startswith('///') or t.text.startswith('//!')): k += 1; continue
        if t.kind == 'punct' and t.text == '#' and k + 1 < len(toks) and toks[k + 1].text == '[':
            k = match_close(toks, k + 1) + 1; continue
        out.append(t); k += 1
    return out
