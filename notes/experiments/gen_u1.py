import sys, subprocess, re
sys.path.insert(0, '.')
from vx_experiment import *

REPO = sys.argv[1] if len(sys.argv) > 1 else '/repo'
log = []

# --- trait Fragment (core.rs), R0 + R10
toks = lex(open(f'{REPO}/src/core.rs').read())
a, b, _ = find_item(toks, 'trait', 'Fragment')
tr = strip_docs_attrs(toks[a:b])
tr, n = apply_rule(tr, ': std::fmt::Debug {', ' {', log=log, name='R0.supertrait')
tr, n = apply_rule(tr, 'fn {n:ident}(&self) -> f64;',
                   'spec fn {n}_spec(&self) -> f64;\n    fn {n}(&self) -> (r: f64) ensures r == self.{n}_spec();',
                   only=lambda b: not b['n'].endswith('_spec'), log=log, name='R10.ghost_twin')
assert n == 3, n
trait_txt = text(tr)

# --- fn wrap_first_fit (wrap_algorithms.rs), R0, R2, R3, R9 + clause injection
toks = lex(open(f'{REPO}/src/wrap_algorithms.rs').read())
a, b, body_open = find_item(toks, 'fn', 'wrap_first_fit')
fn = strip_docs_attrs(toks[a:b])
fn, n = apply_rule(fn, 'for ({i:ident}, {x:ident}) in {s:expr}.iter().enumerate() {',
                   'for {i} in 0..{s}.len() {\n        let {x} = &{s}[{i}];', log=log, name='R2.enumerate')
assert n == 1, n
fn, n = apply_rule(fn, '{v:ident} += {e:expr};', '{v} = {v} + ({e});',
                   only=lambda b: b['v'] in ('width',), log=log, name='R3.float_compound_assign')
assert n == 1, n
fn, n = apply_rule(fn, ') -> Vec<&\'a [T]> {', ') -> (lines: Vec<&\'a [T]>) {', log=log, name='R9.name_result')
assert n == 1, n

clauses = [
 ('fn.spec', '''    ensures
        lines@.len() >= 1,
        concat_lines(lines@) =~= fragments@,
        fragments@.len() > 0 ==> forall|k: int| 0 <= k < lines@.len() ==> (#[trigger] lines@[k])@.len() > 0,
        fragments@.len() == 0 ==> lines@.len() == 1,
        exists|breaks: Seq<int>| lines_match(lines@, fragments@, breaks) && greedy(fragments@, line_widths@, breaks),'''),
 ('body.start', '    proof { f64_add_det(); f64_cmp_det(); }\n    let ghost mut br: Seq<int> = seq![0int];'),
 ('loop0.spec', '''        invariant
            <f64 as AddSpec>::obeys_add_spec(), <f64 as PartialOrdSpec>::obeys_partial_cmp_spec(),
            default_line_width == lw_at(line_widths@, line_widths@.len() as int),
            start <= idx <= fragments@.len(),
            idx > 0 ==> start < idx,
            idx == 0 ==> lines@.len() == 0,
            concat_lines(lines@) =~= fragments@.subrange(0, start as int),
            forall|k: int| 0 <= k < lines@.len() ==> (#[trigger] lines@[k])@.len() > 0,
            lines_match(lines@, fragments@, br),
            br[0] == 0,
            br[br.len() - 1] == start,
            width == acc(fragments@, start as int, idx as int),
            forall|k: int, i: int| 0 <= k < lines@.len() && br[k] < i < br[k + 1]
                ==> !#[trigger] overflows(fragments@, br[k], i, lw_at(line_widths@, k)),
            forall|i: int| start < i < idx ==> !#[trigger] overflows(fragments@, start as int, i, lw_at(line_widths@, lines@.len() as int)),
            forall|k: int| 0 <= k < lines@.len()
                ==> #[trigger] overflows(fragments@, br[k], br[k + 1], lw_at(line_widths@, k)),'''),
 ('loop0.if0.then.end', '            proof { br = br.push(idx as int); }'),
 ('loop0.body.end', '        proof { reveal_with_fuel(acc, 2); assert(acc(fragments@, start as int, idx as int + 1) == fadd(acc(fragments@, start as int, idx as int), fadd(fragments@[idx as int].width_spec(), fragments@[idx as int].whitespace_width_spec()))); }'),
 ('body.before_tail', '''    proof { br = br.push(fragments@.len() as int);
        assert(lines_match(lines@, fragments@, br));
        assert(greedy(fragments@, line_widths@, br));
    }'''),
]
_, _, body_open = find_item(fn, 'fn', 'wrap_first_fit')
fn = inject(fn, body_open, clauses)
fn_txt = text(fn)

# --- assemble with the spec part of the prototype (everything in mod specs except the trait)
proto = open('/verif/notes/prototypes/u1_wrap_first_fit.verus.rs').read()
head = proto[:proto.index('pub fn wrap_first_fit')]
head = re.sub(r'pub trait Fragment \{.*?\n\}\n', trait_txt + '\n', head, flags=re.S)
out = head + fn_txt + '\n\n} // verus!\nfn main() {}\n'
open('gen_u1.rs', 'w').write(out)
import json; json.dump(log, open('gen_u1.rules.json', 'w'), indent=1)
print('rules applied:', len(log))
r = subprocess.run(['verus', 'gen_u1.rs', '--triggers-mode', 'silent'], capture_output=True, text=True)
txt = r.stdout + r.stderr
print(re.search(r'verification results::.*', txt).group(0) if 'verification results' in txt else txt[-1500:])
for e in re.findall(r'^error.*', txt, re.M)[:5]: print(e)
