import sys, difflib, re
sys.path.insert(0, '.')
from vx_experiment import *
P='/verif/notes/prototypes/'
FIX='/root/scratch/fix/src/'   # repaired copy (F1,F2,F5 fixed); identical to /repo elsewhere
units = [
 ('u1_wrap_first_fit', 'wrap_algorithms.rs', ['wrap_first_fit']),
 ('u2_wrap_optimal_fit', 'wrap_algorithms/optimal_fit.rs', ['wrap_optimal_fit']),
 ('u3_display_width', 'core.rs', ['skip_ansi_escape_sequence', 'display_width']),
 ('u4_non_empty_lines', 'line_ending.rs', ['next']),
 ('u5_wrap_columns', 'columns.rs', ['wrap_columns']),
 ('u6_u7_word_from_break_words', 'core.rs', ['from', 'break_words']),
 ('u8_indent', 'indentation.rs', ['indent']),
 ('u10_fill_inplace', 'fill.rs', ['fill_inplace']),
 ('u11_wrap_slow_path', 'wrap.rs', ['wrap', 'wrap_single_line', 'wrap_single_line_slow_path']),
 ('u12_fill_slow_path', 'fill.rs', ['fill_slow_path']),
]
def body_tokens(path, fn):
    toks = lex(open(path).read())
    # choose the occurrence that has a body and is not inside mod specs wrappers named differently
    a, b, bo = find_item(toks, 'fn', fn)
    if bo is None:   # a declaration (trait); look further
        a, b, bo = find_item(toks, 'fn', fn, after=b)
    t = strip_docs_attrs(toks[bo:b])
    return [x.text for x in t if x.kind not in ('ws', 'comment')]
for u, src, fns in units:
    for fn in fns:
        try:
            s = body_tokens(FIX + src, fn)
            p = body_tokens(P + u + '.verus.rs', fn)
        except Exception as e:
            print(f'{u}:{fn}: ERROR {e}'); continue
        sm = difflib.SequenceMatcher(a=s, b=p, autojunk=False)
        ins = dele = rep = 0; details = []
        for tag, i1, i2, j1, j2 in sm.get_opcodes():
            if tag == 'insert': ins += j2 - j1
            elif tag == 'delete': dele += i2 - i1; details.append(('-', ' '.join(s[i1:i2])[:90]))
            elif tag == 'replace': rep += 1; details.append(('~', ' '.join(s[i1:i2])[:70] + '  =>  ' + ' '.join(p[j1:j2])[:90]))
        print(f'== {u}:{fn}: source tokens {len(s)}, inserted {ins}, deleted {dele}, replaced-sites {rep}')
        for d in details: print('    ', d[0], d[1])
