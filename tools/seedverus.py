#!/usr/bin/env python3
"""For every seeded change: apply it to a scratch copy of /repo/src (never to /repo) and run every Verus unit that extracts from a
touched file; record pass / violation / undecided (+ reason). -> seeded/VERUS.json.  usage: seedverus.py [seed ids...]"""
import json, os, re, shutil, subprocess, sys, tempfile
from concurrent.futures import ThreadPoolExecutor
V = os.path.dirname(os.path.dirname(os.path.abspath(__file__)))
sys.path.insert(0, os.path.join(V, 'tools'))
import vx
seeds = sys.argv[1:] or sorted(d for d in os.listdir(os.path.join(V, 'seeded')) if os.path.isdir(os.path.join(V, 'seeded', d)))
units = vx.all_units()
def files_of(u):
    return {e.file for e in u.extracts()}
def run(seed):
    d = tempfile.mkdtemp(prefix='sv_')
    try:
        shutil.copytree('/repo/src', os.path.join(d, 'src'))
        patch = os.path.join(V, 'seeded', seed, 'patch.diff')
        r = subprocess.run(['patch', '-p1', '-s', '-d', d, '-i', patch], capture_output=True, text=True)
        if r.returncode != 0:
            return seed, {'error': 'patch does not apply: ' + r.stdout[:200]}
        touched = set(re.findall(r'^\+\+\+ b/(\S+)', open(patch).read(), re.M))
        out = {}
        for u in units:
            if not (files_of(u) & touched):
                continue
            c = subprocess.run([sys.executable, os.path.join(V, 'tools', 'vx.py'), 'verify', u.id, '--repo', d], capture_output=True, text=True)
            first = c.stdout.split('\n')[0].split()
            status = first[1] if len(first) > 1 else '?'
            reason = ''
            for l in c.stdout.split('\n')[1:]:
                if l.strip().startswith(('undecided:', 'FAILED')):
                    reason = l.strip()[:220]; break
            out[u.id] = {'status': status, 'reason': reason}
        return seed, out
    finally:
        shutil.rmtree(d, ignore_errors=True)
res = {}
with ThreadPoolExecutor(max_workers=6) as ex:
    for seed, out in ex.map(run, seeds):
        res[seed] = out
        print(seed, {k: v['status'] for k, v in out.items()} if 'error' not in out else out, flush=True)
f = os.path.join(V, 'seeded', 'VERUS.json')
old = json.load(open(f)) if os.path.exists(f) and sys.argv[1:] else {}
old.update(res)
json.dump(old, open(f, 'w'), indent=1)
n = sum(1 for s in old.values() if any(v.get('status') == 'violation' for v in s.values() if isinstance(v, dict)))
print(f'{n} of {len(old)} seeded changes are rejected by a Verus obligation on their own')
