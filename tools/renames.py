#!/usr/bin/env python3
"""Rename campaign: for every function under contract, rename each `let`-bound local (one at a time, consistently, to a fresh name) in a
scratch copy of /repo/src and re-verify the unit. A pure rename keeps behaviour, so the outcome must be pass or undecided — never a
violation. (vx.py follows consistent renames of locals in annotations and rule bindings; captured variables of converted closures
and names fixed in non-extracted side-car text stay undecided.)   usage: renames.py [units...]  -> harmless/RENAMES.json"""
import json, os, re, shutil, subprocess, sys, tempfile
from concurrent.futures import ThreadPoolExecutor
V = os.path.dirname(os.path.dirname(os.path.abspath(__file__)))
sys.path.insert(0, os.path.join(V, 'tools'))
import vx
names = sys.argv[1:]
units = [u for u in vx.all_units() if not names or u.id in names]
cases = []
for u in units:
    for ex in u.extracts():
        if ex.kw != 'fn' or ex.file.startswith('registry:'):      # (the smawk source is not part of /repo)
            continue
        src = open(os.path.join('/repo', ex.file)).read()
        toks = vx.lex(src)
        try:
            a, b = vx.find_item(toks, ex.kw, ex.name, ex.inside)
        except Exception:
            continue
        pre, body, post = vx.text(toks[:a]), vx.text(toks[a:b]), vx.text(toks[b:])
        locs = []
        for m in re.finditer(r'\blet\s+(?:mut\s+)?([a-z_][a-z0-9_]*)\b', body):
            if m.group(1) not in locs and m.group(1) != '_':
                locs.append(m.group(1))
        for name in locs:
            new = name + '_rn'
            bt = [t for t in vx.lex(body)]
            sg = vx.sig(bt)
            for n, k in enumerate(sg):
                prev = bt[sg[n - 1]].text if n > 0 else ''
                nxt = bt[sg[n + 1]].text if n + 1 < len(sg) else ''
                if bt[k].kind == 'ident' and bt[k].text == name and prev != '.' and nxt not in ('(', '!', '::') and prev != '::':
                    bt[k] = vx.Tok('ident', new)
            nb = vx.text(bt)
            # struct-literal shorthand `Word { width, .. }` / `width: width` would change meaning: skip names used as field labels
            if re.search(r'[{,]\s*' + re.escape(name) + r'\s*[:,}]', body):
                continue
            cases.append((u.id, ex.file, ex.name, name, pre + nb + post))


def run(c):
    uid, file, fn, name, newsrc = c
    d = tempfile.mkdtemp(prefix='rn_')
    try:
        shutil.copytree('/repo/src', os.path.join(d, 'src'))
        open(os.path.join(d, file), 'w').write(newsrc)
        r = subprocess.run([sys.executable, os.path.join(V, 'tools', 'vx.py'), 'verify', uid, '--repo', d], capture_output=True, text=True)
        first = r.stdout.split('\n')[0].split()
        status = first[1] if len(first) > 1 else '?'
        reason = next((l.strip()[:160] for l in r.stdout.split('\n')[1:] if l.strip().startswith(('undecided:', 'FAILED'))), '')
        return {'unit': uid, 'fn': fn, 'local': name, 'status': status, 'reason': reason}
    finally:
        shutil.rmtree(d, ignore_errors=True)


with ThreadPoolExecutor(max_workers=8) as ex:
    res = list(ex.map(run, cases))
for r in res:
    print(r['unit'], r['fn'], r['local'], r['status'], r['reason'][:100])
_f = os.path.join(V, 'harmless', 'RENAMES.json')
if names and os.path.exists(_f):      # a partial re-run replaces only the cases of the named units
    res = [r for r in json.load(open(_f))['cases'] if r['unit'] not in names] + res
n = {k: sum(1 for r in res if r['status'] == k) for k in ('pass', 'undecided', 'violation')}
json.dump({'summary': n, 'cases': res}, open(os.path.join(V, 'harmless', 'RENAMES.json'), 'w'), indent=1)
print(n)
sys.exit(1 if n['violation'] else 0)
