#!/usr/bin/env python3
"""Parallel version of seedtest.py that never touches /repo: N workers, each with its own scratch copy of /repo (under /tmp, removed at
the end), its own copy of the BEC crate pointing at that copy, its own evidence/replay directory. Each seeded change is applied to the
worker's copy, the checks of the properties it breaks are run there (VERIF_REPO / VERIF_BEC_DIR / VERIF_BEC_TARGET / VERIF_OUT), and the
copy is restored. Results are merged into seeded/RESULTS.json exactly as seedtest.py writes them.
   usage: seedpar.py [-jN] [--thorough] [seed ids...]
          seedpar.py --harmless [-jN] [ids...]   the same for the behaviour-preserving edits in harmless/: EVERY property's check is run on
                                                 each; exit 1 anywhere is a false alarm (results: harmless/RESULTS.json, as harmless2.py writes them)"""
import json, os, shutil, subprocess, sys, time, queue, threading
V = os.path.dirname(os.path.dirname(os.path.abspath(__file__)))
args = [a for a in sys.argv[1:] if not a.startswith('-')]
N = int(next((a[2:] for a in sys.argv[1:] if a.startswith('-j')), '4'))
tier = 'thorough' if '--thorough' in sys.argv else 'quick'
HARMLESS = '--harmless' in sys.argv
SRC = 'harmless' if HARMLESS else 'seeded'
PROPS = [f'C{i:02d}' for i in range(1, 21)]
seeds = args or sorted(d for d in os.listdir(os.path.join(V, SRC)) if os.path.isdir(os.path.join(V, SRC, d)))
resf = os.path.join(V, SRC, 'RESULTS.json')
results = json.load(open(resf)) if os.path.exists(resf) else {}
assert subprocess.run(['git', '-C', '/repo', 'status', '--porcelain', '--untracked-files=no'], capture_output=True, text=True).stdout.strip() == '', '/repo not clean'
q = queue.Queue()
for s in seeds:
    q.put(s)
lock = threading.Lock()


def worker(i):
    root = f'/tmp/seedpar_{os.getpid()}_{i}'
    repo = os.path.join(root, 'repo')
    os.makedirs(root)
    subprocess.run(['rsync', '-a', '--exclude', 'target', '--exclude', '.git', '/repo/', repo + '/'], check=True)
    subprocess.run(['git', 'init', '-q'], cwd=repo, check=True)
    subprocess.run('git add -A && git -c user.email=x@x -c user.name=x commit -qm base', shell=True, cwd=repo, check=True)
    bec = os.path.join(root, 'bec')
    subprocess.run(['rsync', '-a', '--exclude', 'target', '--exclude', 'target-min', os.path.join(V, 'bec') + '/', bec + '/'], check=True)
    ct = os.path.join(bec, 'Cargo.toml')
    t = open(ct).read(); assert 'path = "/repo"' in t
    open(ct, 'w').write(t.replace('path = "/repo"', f'path = "{repo}"'))
    tgt = os.path.join(root, 'tgt'); os.makedirs(tgt)
    for d in ('target', 'target-min'):            # warm build cache
        if os.path.isdir(os.path.join(V, 'bec', d)):
            subprocess.run(['cp', '-r', os.path.join(V, 'bec', d), os.path.join(tgt, d)], check=True)
    env = dict(os.environ, VERIF_REPO=repo, VERIF_BEC_DIR=bec, VERIF_BEC_TARGET=tgt, VERIF_OUT=os.path.join(root, 'out'))
    try:
        while True:
            try:
                s = q.get_nowait()
            except queue.Empty:
                return
            d = os.path.join(V, SRC, s)
            meta = {'breaks': PROPS} if HARMLESS else json.load(open(os.path.join(d, 'meta.json')))
            r = subprocess.run(['git', 'apply', os.path.join(d, 'patch.diff')], cwd=repo, capture_output=True, text=True)
            if r.returncode != 0:
                print(s, 'PATCH DOES NOT APPLY', r.stderr[:300], flush=True); continue
            try:
                out = {}
                for p in meta['breaks']:
                    t0 = time.time()
                    c = subprocess.run([os.path.join(V, 'check'), p, '--tier', tier], capture_output=True, text=True, cwd=V, env=env)
                    lines = [l for l in c.stdout.split('\n') if l.startswith(('VIOLATION', 'UNDECIDED', '  failed', 'KNOWN'))]
                    names = sorted({l.split('failed: ', 1)[1].split(':', 1)[0] for l in lines if l.startswith('  failed')})
                    out[p] = {'exit': c.returncode, 'lines': lines[:6], 's': round(time.time() - t0, 1),
                              'verus_failed': [n for n in names if n[0] == 'U'], 'kani_failed': [n for n in names if n[0] == 'K'],
                              'bec_failed': [n for n in names if n[0] not in 'UK'],
                              'undecided': sorted({l.split(': ', 1)[1].split(':', 1)[0] for l in lines if l.startswith('UNDECIDED') and ': ' in l}),
                              'no_failing_input': any('no-failing-input-found' in l for l in lines)}
                    print(f'{s} {p}: exit {c.returncode}', (lines[0][:160] if lines else ''), flush=True)
                with lock:
                    if HARMLESS:
                        results[s] = {'checks': {p: {'exit': out[p]['exit'], 'lines': out[p]['lines'], 's': out[p]['s']} for p in out},
                                      'alarms': [p for p in PROPS if out[p]['exit'] == 1], 'undecided': [p for p in PROPS if out[p]['exit'] == 2],
                                      'held': [p for p in PROPS if out[p]['exit'] == 0]}
                    else:
                        results[s] = {'breaks': meta['breaks'], 'tier': tier, 'checks': out,
                                      'caught': all(out[p]['exit'] == 1 for p in meta['breaks'] if p in out), 'other_alarms': []}
                    json.dump(results, open(resf, 'w'), indent=1, ensure_ascii=False)
            finally:
                subprocess.run('git checkout -q -- . && git clean -fdq', shell=True, cwd=repo, check=True)
    finally:
        shutil.rmtree(root, ignore_errors=True)


ths = [threading.Thread(target=worker, args=(i,)) for i in range(N)]
for t in ths: t.start()
for t in ths: t.join()
if HARMLESS:
    al = {s: results[s]['alarms'] for s in seeds if s in results and results[s]['alarms']}
    print('false alarms:', al)
    sys.exit(1 if al else 0)
missed = [s for s in seeds if s in results and not results[s]['caught']]
print('missed:', missed)
sys.exit(1 if missed else 0)
