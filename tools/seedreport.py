#!/usr/bin/env python3
"""seeded/RESULTS.json -> seeded/RESULTS.md: which back end catches which seeded change"""
import json, os, re
V = os.path.dirname(os.path.dirname(os.path.abspath(__file__)))
R = json.load(open(os.path.join(V, 'seeded', 'RESULTS.json')))
rows = []
tot = {'verus': 0, 'bec': 0, 'kani': 0, 'verus_only': 0, 'bec_only': 0, 'missed': 0}
for s in sorted(R):
    r = R[s]
    try:
        files = sorted(set(re.findall(r'^\+\+\+ b/(\S+)', open(os.path.join(V, 'seeded', s, 'patch.diff')).read(), re.M)))
    except OSError:
        files = []
    for p in r['breaks']:
        c = r['checks'].get(p)
        if not c:
            continue
        vu = sorted({n.split('.')[0] + '.' + n.split('.')[1] for n in c.get('verus_failed', [])})
        be = c.get('bec_failed', []); ka = c.get('kani_failed', []); un = c.get('undecided', [])
        caught = c['exit'] == 1
        tot['verus'] += bool(vu); tot['bec'] += bool(be); tot['kani'] += bool(ka)
        tot['verus_only'] += bool(vu) and not be and not ka; tot['bec_only'] += bool(be) and not vu and not ka; tot['missed'] += not caught
        rows.append(f"| {s} | {p} | {', '.join(f.replace('src/', '') for f in files)} | {', '.join(vu) or '—'} | {', '.join(be) or '—'}{(' ; Kani ' + ', '.join(ka)) if ka else ''} | "
                    f"{', '.join(un) or '—'} | {'VIOLATION' if caught else 'MISSED'}{' (no failing input found)' if c.get('no_failing_input') and not be else ''} |")
out = ['# Seeded changes: what catches what', '',
       f'{len(R)} seeded changes, {len(rows)} (change, property) pairs; caught: {len(rows) - tot["missed"]}, missed: {tot["missed"]}. '
       f'A Verus obligation failed in {tot["verus"]} pairs (in {tot["verus_only"]} of them nothing else did), a bounded executable contract (BEC) in {tot["bec"]} '
       f'(only BEC in {tot["bec_only"]}), a Kani harness in {tot["kani"]}.', '',
       'Columns: the Verus column lists `<unit>.<function>` of failed obligations; "undecided" lists units the change made undecidable '
       '(structural edits the annotation merge cannot follow, or constructs Verus rejects) — never an alarm on their own.', '',
       '| seed | property | files changed | Verus obligations failed | BEC contracts failed | undecided units | verdict |', '|---|---|---|---|---|---|---|'] + rows
open(os.path.join(V, 'seeded', 'RESULTS.md'), 'w').write('\n'.join(out) + '\n')
print(out[2])
