#!/usr/bin/env python3
"""Harmless-refactor campaign: behaviour-preserving edits of /repo/src (on a scratch copy) must never make a Verus unit
report a violation (they may verify, or be undecided when Verus lacks a spec for a new construct)."""
import subprocess, shutil, sys, os
V = os.path.dirname(os.path.dirname(os.path.abspath(__file__)))
CASES = [
 ('U1','wrap_algorithms.rs',"        if width + fragment.width() + fragment.penalty_width() > line_width && idx > start {","        let needed = width + fragment.width() + fragment.penalty_width();\n        if needed > line_width && idx > start {","hoist sum into let"),
 ('U1','wrap_algorithms.rs',"            start = idx;\n            width = 0.0;","            width = 0.0;\n            start = idx;","swap independent statements"),
 ('U1','wrap_algorithms.rs',"&& idx > start {","&& start < idx {","flip comparison"),
 ('U1','wrap_algorithms.rs',"    let mut start = 0;\n    let mut width = 0.0;","    let mut width = 0.0;\n    let mut start = 0;","swap declarations"),
 ('U3','core.rs',"        width += ch_width(ch);","        let w = ch_width(ch);\n        width += w;","hoist ch_width"),
 ('U3','core.rs',"    if ch != CSI.0 {\n        return false; // Nothing to skip here.\n    }","    if ch != '\\x1b' {\n        return false;\n    }","literal instead of const"),
 ('U5','columns.rs',"    let column_width = std::cmp::max(inner_width / columns, 1);","    let per_column = inner_width / columns;\n    let column_width = std::cmp::max(per_column, 1);","hoist division"),
 ('U5','columns.rs',"            if column_no == columns - 1 {\n                line.push_str(&last_column_padding);\n            } else {\n                line.push_str(middle_gap);\n            }","            if column_no != columns - 1 {\n                line.push_str(middle_gap);\n            } else {\n                line.push_str(&last_column_padding);\n            }","invert if/else"),
 ('U8','indentation.rs',"        if idx > 0 {\n            result.push('\\n');\n        }","        if idx != 0 {\n            result.push('\\n');\n        }","!= instead of >"),
 ('U11','wrap.rs',"    if line.len() < options.width && indent.is_empty() {","    if indent.is_empty() && line.len() < options.width {","swap conjuncts"),
 ('U11','wrap.rs',"        idx += len + last_word.whitespace.len();","        idx = idx + len + last_word.whitespace.len();","expand +="),
 ('U13','word_separators.rs',"            if in_whitespace && ch != ' ' {","            if ch != ' ' && in_whitespace {","swap conjuncts"),
 ('U15','core.rs',"                if width > 0 && width + ch_width(ch) > line_width {","                let cw = ch_width(ch);\n                if width > 0 && width + cw > line_width {","hoist ch_width in break_apart"),
 ('U9','indentation.rs',"        if whitespace_idx < line.len() {\n            prefix = &line[..whitespace_idx];\n            break;","        if line.len() > whitespace_idx {\n            prefix = &line[..whitespace_idx];\n            break;","flip comparison in dedent"),
 ('U2','wrap_algorithms/optimal_fit.rs',"        let target_width = line_width.max(1.0);","        let target_width = f64::max(line_width, 1.0);","f64::max call form"),
 ('U10','fill.rs',"            line_offset += line_len;","            line_offset = line_offset + line_len;","expand += on usize"),
 ('U14','word_splitters.rs',"            if prev < word.word.len() || prev == 0 {","            if prev == 0 || prev < word.word.len() {","swap disjuncts"),
 ('U16','word_splitters.rs',"                        splits.push(idx + 1); // +1 due to width of '-'.","                        let after = idx + 1;\n                        splits.push(after);","hoist idx + 1"),
 ('U18','refill.rs',"            if prefix.len() < options.subsequent_indent.len() {","            if options.subsequent_indent.len() > prefix.len() {","flip comparison in unfill"),
 ('U18','refill.rs',"        if idx == 0 {\n            unfilled.push_str(&line[options.initial_indent.len()..]);\n        } else {\n            unfilled.push(' ');\n            unfilled.push_str(&line[options.subsequent_indent.len()..]);\n        }","        if idx != 0 {\n            unfilled.push(' ');\n            unfilled.push_str(&line[options.subsequent_indent.len()..]);\n        } else {\n            unfilled.push_str(&line[options.initial_indent.len()..]);\n        }","invert if/else in unfill"),
 ('U21','refill.rs',"    new_options.initial_indent = options.initial_indent;\n    new_options.subsequent_indent = options.subsequent_indent;","    new_options.subsequent_indent = options.subsequent_indent;\n    new_options.initial_indent = options.initial_indent;","swap independent assignments in refill"),
 ('U21','refill.rs',"    if stripped.is_some() {\n        refilled.push_str(new_line_ending);","    if !stripped.is_none() {\n        refilled.push_str(new_line_ending);","is_some as !is_none"),
 ('U12','fill.rs',"    if text.len() < options.width && !text.contains('\\n') && options.initial_indent.is_empty() {","    if !text.contains('\\n') && text.len() < options.width && options.initial_indent.is_empty() {","swap conjuncts in fill"),
 ('U20','word_separators.rs',"                last_stripped_idx += ch.len_utf8();","                last_stripped_idx = last_stripped_idx + ch.len_utf8();","expand += in idx_map"),
 ('U20','word_separators.rs',"            if *idx == stripped.len() {","            if stripped.len() == *idx {","flip equality in filter"),
]
bad = 0
for unit, file, a, b, label in CASES:
    shutil.rmtree('/tmp/mrepo', ignore_errors=True); shutil.copytree('/repo/src', '/tmp/mrepo/src')
    src = open('/repo/src/' + file).read()
    if a not in src:
        print(f'[{unit}] {label}: SOURCE CHANGED, case skipped'); continue
    open('/tmp/mrepo/src/' + file, 'w').write(src.replace(a, b, 1))
    r = subprocess.run([sys.executable, os.path.join(V, 'tools', 'vx.py'), 'verify', unit, '--repo', '/tmp/mrepo'], capture_output=True, text=True)
    status = r.stdout.split()[1] if r.stdout.split() else '?'
    print(f'[{unit}] {label}: {status}')
    if status == 'violation':
        bad += 1
shutil.rmtree('/tmp/mrepo', ignore_errors=True)
print('false alarms:', bad)
sys.exit(1 if bad else 0)
