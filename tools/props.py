"""Per-property configuration of ./check: which Verus units (contracts on extracted code), which Kani harnesses and
which bounded exhaustive contracts (BEC) decide it, and what the evidence says about the level."""

TRUSTED = {
    'A1': 'A1 f64 is IEEE-754, total and deterministic: add/sub/mul/div preconditions hold and obeys_*_spec hold for f64 (vstd leaves them undetermined); '
          'float VALUES stay uninterpreted — contracts apply the same operations to the same operands in the same order as the code',
    'A2': 'A2 (discharged) ch_width(c) == chw(c) with chw(c) <= len_utf8(c): abstract in Verus, discharged for every char by Kani harness K1 (loop-free, full domain; K1 also checks chw(\' \') == 1, used by C20\'s width theorem) '
          'and by the exhaustive scalar enumeration of BEC contract C10.display_width.scalar',
    'A3': 'A3 allocation bound: a str/String has at most isize::MAX bytes, a Vec at most isize::MAX elements',
    'A4': 'A4 documented std behaviour of the transparent wrappers (vx_* functions whose body is the std call: slicing, find, trim_end_matches, split, '
          'repeat, Cow operations, mem::take, ...), vstd\'s own assume_specifications and vstd::utf8; in U9 also two axioms about std functions that are otherwise abstract there: '
          'str::lines(s) is lines_c(s) (the \'\\n\'-separated pieces, a terminated piece without one \'\\r\' before its \'\\n\', the unterminated last piece as it is — carriage return included — and dropped when empty) — checked literally on the real str::lines within scope by the bounded contract A4.std_models — and char::is_whitespace(\'\\r\') (cr_is_ws; discharged on the real std function by the loop-free Kani harness K5); the two char-level assume_specifications of prelude/std_more.vrs (char::is_ascii(c) == (c < 128), u8::is_ascii_whitespace(b) == b in {32, 9, 10, 12, 13}) are likewise discharged by K5, for every char and every u8',
    'A5': 'A5 Fragment accessors are pure (each accessor returns its ghost twin)',
    'A6': 'A6 (discharged as far as shape and safety go) smawk::online_column_minima(init, n, f) calls f(m, i, j) only with i < j < n, i < m.len() and a well-shaped table m, never panics, '
          'terminates, and returns a back-pointer table of length n with m[0].0 == 0 and m[k].0 < k: PROVED in unit U24 on the source of the smawk version Cargo.lock pins (read from the '
          'cargo registry), for every callback — no monotonicity needed —, together with the fact that no write touches the finished prefix shown to the callback, and for n <= 2^63 + 1 (beyond that the crate\'s own `finished + rows.len()` could overflow); U2 restates it. '
          'That the table holds column MINIMA additionally needs total monotonicity, which nobody proves (optimality is bounded-only). '
          'The bounded contract A6.smawk.call_shape still checks the shape on the compiled crate (C03, C06)',
    'A7': 'A7 (discharged as far as safety goes) LineNumbers (RefCell memo of line numbers): PROVED in unit U23 (rewrite R17: RefCell<Vec> verified as a Vec behind &mut self; no two borrows overlap): `new` establishes and '
          'every `get` — on ANY back-pointer table of smawk\'s shape and any i inside it — preserves the table-independent invariant "entry j <= j", under which get terminates and can neither '
          'index out of bounds nor overflow; and when the memo matches the table, get returns the number of back-pointer hops (the line number) and the memo keeps matching. '
          'In U2 the call stays abstract (any usize) because the memo sits behind &self: that the safety invariant holds at every call is the induction over the calls made by one cost closure '
          '(new, then only get, each with a well-shaped table and i inside it — which U24 proves of smawk); it needs nothing about the table\'s history. That the memo MATCHES the growing '
          'tables (so that the line number picks the right width when several are listed) additionally needs smawk never to change a finished prefix — U24 proves that every write of an iteration lies beyond the prefix result[..finished + 1] the callbacks of that iteration are shown; also checked on the real crate by BEC A6.smawk.call_shape',
    'A8': 'A8 (discharged) termination of the loops of display_width and strip_ansi_escape_sequences is now PROVED: Verus forbids the prophetic remaining() in a decreases '
          'clause, so a ghost counter starts at the number of characters and the invariant remaining().len() <= counter shows every iteration consumes at least one; no '
          'exec_allows_no_decreases_clause is left anywhere',
    'A9': 'A9 restated callee contracts: Verus runs one file per unit, so a callee proved in another unit appears in the caller\'s unit as an external_body function (or an axiom) whose '
          'contract is restated; every such link is listed and audited in DESIGN.md §2.8 (the word pipeline into U11, break_apart into U6, Word::from, the line breakers and the dispatch, '
          'split_points into U14, display_width / strip / the ANSI skipper from U3, wrap\'s shortcut into U12, the ASCII word finder and first-fit into U10, smawk from U24 into U2, indent from U8 into U9\'s theorem c18_dedent_of_indent). '
          'Each link that concerns textwrap code is also an executable BEC contract on the real callee (C11/C12/C06/C10 contracts). '
          'In U6 display width is no longer abstract: the unit includes the shared definition dw of prelude/ansi.vrs (the one U3 proves display_width against), so dw("") == 0 is a lemma there; '
          'the same inclusion in U11 (which would also turn dw_le_bytes into U3\'s lemma) verified but doubled the unit\'s resource use (98M rlimit units, 1 of 8 SMT seeds failing), '
          'so U11 keeps dw abstract with those two facts restated',
    'A10': 'A10 (discharged) char-boundary safety of &line[idx..idx+len] in wrap\'s reassembly is now PROVED in U11 (the seam between valid UTF-8 pieces is a char boundary), '
           'and String::from_utf8(..).unwrap() in fill_inplace is proved not to fail in U10 (overwriting an ASCII byte by an ASCII byte keeps UTF-8 validity)',
    'A11': 'A11 stated preconditions: wrap_optimal_fit: fragments.len() <= isize::MAX (true of every slice of non-zero-sized fragments; for a zero-sized fragment type the Vec of prefix sums could not be allocated); wrap_columns: columns <= isize::MAX and '
           'display_width(middle_gap)*(columns-1) <= usize::MAX (the "result could not fit in memory" exemption made precise)',
    'A12': 'A12 the rewrite rules R0-R19 preserve behaviour (incl. following consistent renames of bound locals, R0.follow_rename) (each application is logged in the evidence); the Python lexer/merger, Verus, Z3, Kani/CBMC, rustc',
    'A13': 'A13 BEC oracles: unicode-linebreak 0.1.5 and unicode-width 0.2.0 from the cargo registry are taken as the UAX #14 / width tables the properties refer to; '
           'in Verus (U20) unicode_linebreak::linebreaks(s) is abstract with an assumed shape (strictly increasing char-boundary positions in 1..=s.len()), '
           'checked on the real crate within scope by BEC contract A13.linebreaks.shape (C11)',
    'A14': 'A14 wrap_optimal_fit returns Ok for usize-valued line widths and penalties ("the computation cannot overflow when the line widths are restricted to usize"): '
           'assumed in U17 (floats are uninterpreted), checked within scope by BEC C04 (no overflow error for any usize-valued input)',
    'A15': 'A15 a user-supplied WrapAlgorithm::Custom function returns an ordered partition of the words; a WordSplitter::Custom function returns strictly increasing '
           'char boundaries inside the word; a WordSeparator::Custom function returns words that tile the line, with spaces-only whitespace, no penalty and cached widths equal to their display widths (their authors\' obligations; the properties quantify over the built-in separators)',
    'R16': 'R16 closure conversion: the body of an `iter::from_fn(move || …)` closure (and of the `.filter(|x| …)` / `.find(|x| …)` closures of the Unicode word finder) is verified as a method '
           'of a struct holding the captured variables (same tokens, captures prefixed by `self.`); that `collect()` calls `next` until None and keeps the items in order, and that filter / find '
           'call their closure on each item in order, is std behaviour (A4)',
    'A16': 'A16 (discharged) IEEE-754 binary64 is exact on small integers (used only for C05\'s "the slow path does what the shortcut does" under first-fit): for usize a, b with a + b < 2^53, '
           'u2f(a) + u2f(b) == u2f(a + b); the conversion usize -> f64 is monotone (a <= b implies not u2f(a) > u2f(b)); u2f(0) == 0.0; and the target is 64-bit (every integer below '
           '2^53 is a usize). Stated as axioms in U17 because Verus has no float theory; DISCHARGED bit-precisely for every pair of usize values by Kani harness K3 (loop-free, full domain; the conversion is taken from the real Fragment accessor Word::width()). What stays assumed is only that Verus\' uninterpreted u2f / fadd / fgt denote the machine operations K3 checks',
    'A17': 'A17 determinism of the word pipeline: in U11 (and, for the ASCII word finder and wrap_first_fit, in U10) each restated callee contract (find_words, split_words, break_words, Word::from, WrapAlgorithm::wrap) also says '
           '"the result is a function of the argument values" (r == f(args), f uninterpreted). The callees are safe Rust over their arguments with no I/O, randomness or state that '
           'outlives the call (LineNumbers\' RefCell is local to one call), and for find_words (U13, U20), split_points/split_words (U16, U14), break_apart (U15) and wrap_first_fit (U1) '
           'the contracts proved in their own units determine the result uniquely; for optimal-fit it rests on smawk being deterministic, for the Custom variants on their authors (A15). '
           'Also: str::split is modelled by split_spec (= split_scan from position 0), the scan for leftmost non-overlapping occurrences of the separator (that std::str::split computes this is the assumption; '
           'it is checked on the real str::split by the bounded contract A4.std_models); that a text without the separator is one piece and that, for the unbordered separators '
           '"\\n" and "\\r\\n", the pieces of a ++ sep ++ b are those of a followed by those of b are PROVED for that model (split_no_sep, split_concat)',
    'R17': 'R17 RefCell<Vec<usize>> is verified as a plain Vec behind &mut self (LineNumbers): every borrow()/borrow_mut() is a temporary that dies within its own '
           'statement and none overlaps another or the recursive call, so the dynamic borrow checks cannot fail',
    'R18': 'R18 (unit U24, the smawk source): `for (c, &x) in S.iter().enumerate().filter(|(c, _)| c % 2 == 0)` is verified as the loop over the even indices below S.len(), in order '
           '(what enumerate + filter yield); the local `macro_rules! m` is expanded by hand at its four uses — its definition is matched literally, so any change to it leaves the unit '
           'undecided rather than verified against a stale expansion; the inline closure handed to smawk_inner is bound to a local and given parameter types',
    'R19': 'R19 see R18',
    'R15': 'R15 generic parameters are verified at one instance: Opt = Options<\'a> (Into is the identity there), I = Vec<Word<\'a>>',
}

K1 = {'name': 'K1.default', 'file': 'k1_ch_width.rs', 'inject': 'src/core.rs', 'features': 'default', 'quick': True, 'timeout': 600,
      'harnesses': [{'name': 'k1_ch_width_le_len_utf8'}, {'name': 'k1_space_is_one_column'}, {'name': 'k1_width_rule'}, {'name': 'k1_probe_must_fail'}]}
K1MIN = dict(K1, name='K1.no-default-features', features='min')
K2 = {'name': 'K2.first_fit_n3', 'file': 'k2_first_fit.rs', 'inject': 'src/wrap_algorithms.rs', 'features': 'default', 'quick': False, 'timeout': 1800,
      'harnesses': [{'name': 'k2_first_fit_partition_and_greedy'}], 'bounded': '3 fragments, quarter-integer widths < 4, whitespace/penalty < 2, two line widths < 8'}
K3 = {'name': 'K3.f64_exact', 'file': 'k3_f64_exact.rs', 'inject': 'src/core.rs', 'features': 'default', 'quick': True, 'timeout': 1200,
      'harnesses': [{'name': 'k3_f64_small_int_add'}, {'name': 'k3_f64_conv_monotone'}, {'name': 'k3_f64_zero_and_target'}, {'name': 'k3_probe_must_fail'}],
      'scope': 'complete: loop-free harnesses over the full domain of `usize` (bit-precise IEEE-754 binary64 in CBMC)'}
K5 = {'name': 'K5.whitespace', 'file': 'k5_whitespace.rs', 'inject': 'src/indentation.rs', 'features': 'default', 'quick': True, 'timeout': 600,
      'harnesses': [{'name': 'k5_cr_is_whitespace'}, {'name': 'k5_is_ascii_all_chars'}, {'name': 'k5_is_ascii_whitespace_all_u8'}, {'name': 'k5_probe_must_fail'}],
      'scope': 'complete: loop-free harnesses on concrete characters (the real char::is_whitespace) and over every char / every u8 (the real char::is_ascii, u8::is_ascii_whitespace against the specs assumed in prelude/std_more.vrs)'}
KANI = {'K1.default': K1, 'K1.no-default-features': K1MIN, 'K2.first_fit_n3': K2, 'K3.f64_exact': K3, 'K5.whitespace': K5}

PROPS = {
    'C01': {
        'units': ['U11', 'U6', 'U1', 'U2', 'U12', 'U13', 'U14', 'U15', 'U16', 'U17', 'U20', 'U22'], 'level': 'other', 'trusted': ['A1', 'A3', 'A4', 'A5', 'A9', 'A10', 'A12', 'A13', 'A14', 'A15', 'A17', 'R15', 'R16'],
        'proved_part': 'Verus (all inputs), for the whole text: wrap returns lines such that line k is indent_k ++ text[a_k .. b_k] ++ (nothing | a single hyphen), with a_0 == 0, '
                       'b_k <= a_(k+1) (slices in order, never overlapping), everything between two consecutive slices being ASCII spaces followed by at most one line ending, and '
                       'only spaces after the last slice — so nothing but such spaces and line endings is lost, and nothing is duplicated, reordered or invented (U11: wrap, '
                       'wrap_single_line with its shortcut, wrap_single_line_slow_path; every slice is taken on char boundaries). This rests on the contracts of the word pipeline, '
                       'each proved in its own unit and restated in U11: the words found tile the line with spaces-only whitespace and no penalty (U13, U20), splitting and '
                       'force-breaking keep the tiling and add at most a hyphen penalty (U14, U15, U6), the line breakers return an ordered partition (U1, U2, U17). Every line '
                       'is Cow::Borrowed exactly when it carries no indent and no inserted hyphen, otherwise Owned (U11: the Cow variant of every line is the function wrap_fn_b of '
                       'the paragraphs; the shortcut line is borrowed); fill == the lines joined (U12). The last sentence — a slice never ends in a space — is proved, '
                       'for all texts, for the ASCII-space separator (any splitter — a custom one under its A15 obligation that split points lie strictly inside the word —, any break_words setting, both algorithms, any indents): a postcondition of wrap '
                       '(exists segs: text_lines_upto(…) && seg_tails_ok(text, segs)) obtained from what each stage exports under its own contract — the dispatcher sends AsciiSpace to '
                       'find_words_ascii_space, whose words hold no space and of which only the first can be without text (U13); the pieces split_words and break_words / break_apart '
                       'make of such words are non-empty sub-slices of them (U14 with U16\'s split points, U6, U15); the slice of a line ends with the text of its last word (U11, '
                       'lemma run_tail_ok), the shortcut line is trimmed.',
        'bounded_part': 'BEC (bounded, exhaustive within scope): pointer identity of borrowed lines with the caller\'s buffer (Verus proves the Borrowed variant, whose lifetime ties it to the text; the address itself is not expressible), "a slice never ends in a space except after a forced '
                        'break" for the Unicode separator (where it holds only conditionally: a word of that separator may contain a space, after which break_words or a custom split point may cut), and the whole statement again by execution on the real crate for every text/option combination of its scope.',
        'explanation': 'Mixed, mostly proved: the statement\'s first two sentences are a discharged postcondition of wrap itself (relative to the restated contracts of the word '
                       'pipeline, DESIGN.md §2.8, and std\'s str::split / slicing, A4); the Borrowed-variant clause is proved; the last sentence is proved for the ASCII-space separator and checked by bounded exhaustive enumeration for the Unicode separator; pointer identity is bounded-only.',
    },
    'C02': {
        'units': ['U11', 'U1', 'U6', 'U22'], 'level': 'other', 'trusted': ['A1', 'A4', 'A5', 'A9', 'A12', 'A15', 'A17', 'R15'],
        'proved_part': 'Verus: the line breaker is called with [width - dw(indent of the first line it produces), width - dw(subsequent_indent)] (a precondition on the callee, '
                       'taken from "each line is measured against the indent it is actually rendered with"); wrap_first_fit is greedy-maximal, so every line with >= 2 fragments '
                       'fits; break_words passes words not wider than the limit through unchanged.',
        'bounded_part': 'BEC: the text-level statement including the single-unbreakable-fragment exception, for every text/option combination in scope.',
        'explanation': 'Mixed: widths handed to the algorithm, greedy fit and dispatch are proved (Verus); the text-level statement (display width of each rendered line, with its '
                       'single-fragment exception) needs display widths to add up over the words of a line — sums over uninterpreted floats, and additivity fails where a word boundary cuts an '
                       'escape sequence — and is checked by bounded exhaustive enumeration. Known finding KF1 lies in it.',
    },
    'C03': {
        'units': ['U2', 'U23', 'U17', 'U11', 'U24'], 'level': 'other', 'trusted': ['A1', 'A5', 'A6', 'A7', 'A9', 'A11', 'A12', 'A14', 'A17', 'R17', 'R18', 'R19'], 'bec_flavors': ['default'],
        'proved_part': 'Verus: prefix sums are the left fold of width+whitespace; the closure passed to SMAWK returns exactly the documented cost (per-line penalty, squared gap '
                       'except on the last line, linear overflow penalty, short-last-line penalty, hyphen penalty) over uninterpreted IEEE operations; the result is an ordered partition (U2). '
                       'Last sentence ("wrap/fill ... produce, for each paragraph, such an arrangement of that paragraph\'s fragments"): the dispatch hands the words, every listed width '
                       'and the penalties to wrap_optimal_fit unchanged (U17), and the lines wrap returns for a paragraph are exactly the runs the dispatch returns for para_words(paragraph) at '
                       'the widths of the indents actually rendered (U11\'s functional postcondition) — so whatever is true of wrap_optimal_fit\'s arrangement is true of wrap\'s lines.',
        'bounded_part': 'BEC: minimality — cost(returned) == minimum over all 2^(n-1) arrangements in exact integer arithmetic and <= cost(first-fit), exhaustive for short '
                        'sequences, sampled for longer ones. Optimality itself needs real arithmetic and total monotonicity and is NOT proved.',
        'explanation': 'Mixed: the cost model and the structure are proved; minimality is bounded-only (Verus has no float theory; SMAWK\'s guarantee needs total monotonicity).',
    },
    'C04': {
        'units': ['U1', 'U2', 'U3', 'U4', 'U5', 'U6', 'U8', 'U9', 'U10', 'U11', 'U12', 'U13', 'U14', 'U15', 'U16', 'U17', 'U18', 'U20', 'U21', 'U22', 'U23', 'U24'], 'level': 'other', 'kani': [K1, K1MIN],
        'trusted': ['A1', 'A2', 'A3', 'A4', 'A5', 'A6', 'A7', 'A8', 'A9', 'A10', 'A11', 'A12', 'A13', 'A14', 'A15', 'A16', 'A17', 'R15', 'R16', 'R17', 'R18', 'R19'],
        'proved_part': 'Verus: absence of panics (index/slice bounds incl. char boundaries in NonEmptyLines, arithmetic overflow, unwrap on None, callee preconditions) and '
                       'termination for wrap_first_fit, wrap_optimal_fit (Err only from the is_infinite test), skip_ansi_escape_sequence, display_width, NonEmptyLines::next, '
                       'wrap_columns (A11), Word::from, break_words, WordSeparator::find_words (the dispatch, U13), indent, dedent, fill_inplace (incl. from_utf8().unwrap()), wrap, wrap_single_line, wrap_single_line_slow_path (incl. char-boundary safety of its slices), fill_slow_path, unfill (incl. the #466 class of slice panics), WordSplitter::split_points, WrapAlgorithm::wrap, strip_ansi_escape_sequences, find_words_ascii_space, find_words_unicode_break_properties, split_words and Word::break_apart (closures, R16), fill, refill, Options::new / from / the setters, LineEnding::as_str, LineNumbers::get (R17), and the two functions of the smawk crate optimal-fit runs (online_column_minima, smawk_inner; U24).',
        'bounded_part': 'BEC: every public function under catch_unwind with a hang watchdog over the adversarial alphabet, widths {0,1,2,7,usize::MAX}, all option combinations, '
                        'extreme penalties; only here: "optimal-fit never reports an overflow error for usize-valued widths and penalties" (A14: float magnitudes), the inside of the dependencies '
                        '(unicode-linebreak, unicode-width tables; smawk is verified in U24), the call through a WordSeparator::Custom function pointer (the dispatch WordSeparator::find_words itself is under contract in U13) and the thin constructors.',
        'explanation': 'Mixed, mostly proved: panic-freedom and termination are proof obligations of every Verus unit — every function the statement names, for all inputs, '
                       'relative to the shape contracts of unicode-linebreak and unicode-width (A13, A2; smawk\'s is proved in U24); the overflow-error clause of optimal-fit needs float magnitudes and is bounded-only, '
                       'as are the dependency internals and what a user-supplied Custom function does.',
    },
    'C05': {
        'units': ['U3', 'U11', 'U12', 'U17', 'U16', 'U14', 'U6', 'U22'], 'level': 'other', 'kani': [K1, K1MIN, K3], 'trusted': ['A1', 'A2', 'A3', 'A4', 'A5', 'A8', 'A9', 'A12', 'A15', 'A16', 'A17', 'R15', 'R16'],
        'proved_part': 'Verus + Kani: display_width(t) <= t.len() for every text — the soundness lemma of the byte-length shortcut (U3, K1). U11: when wrap_single_line takes the shortcut it '
                       'appends exactly one line, indent-free, borrowed, equal to the paragraph with trailing spaces removed; for a text without the line ending that is wrap\'s whole result. '
                       'U11 again, for first-fit, the built-in splitters and widths up to 2^53: wrap_single_line_slow_path, ENTERED UNDER THE SHORTCUT\'S CONDITION (line.len() < width, no '
                       'indent on this line), appends exactly one borrowed line, the paragraph without the spaces after its last word — i.e. taking or not taking the shortcut gives the same '
                       'line. The chain: cached widths <= byte lengths (U3), so every word still fits the first line; built-in splitters cut directly after a hyphen and add no penalty (U16, '
                       'U14), break_words adds none (U6); first-fit keeps words that all fit the first line on one line (U17 over U1\'s greedy rule, with A16: exact integer arithmetic of '
                       'doubles below 2^53, which Kani K3 proves for all usize operands). U12: fill\'s shortcut returns exactly wrap\'s single line, so fill == wrap\'s lines joined on both sides of the shortcut.',
        'bounded_part': 'BEC: the first sentence (a paragraph whose display width fits is returned as one line) for every separator, splitter and algorithm — it needs sums of display widths, '
                        'which Verus cannot do over uninterpreted floats, and for optimal-fit the optimality of one line; wrap_single_line == wrap_single_line_slow_path and fill == '
                        'fill_slow_path (upstream cfg(fuzzing) entry points) for every text in scope and widths on both sides of the shortcut condition, all option combinations.',
        'explanation': 'Mixed: the soundness lemma, both shortcuts\' exact results, and — for first-fit with the built-in splitters — the agreement of slow path and shortcut are proved; '
                       'the first sentence and the optimal-fit / custom-splitter cases of the second are checked by bounded exhaustive enumeration. Known finding KF5 lies in the first sentence.',
    },
    'C06': {
        'units': ['U1', 'U2', 'U17', 'U23', 'U24'], 'level': 'proof', 'trusted': ['A1', 'A5', 'A6', 'A7', 'A9', 'A11', 'A12', 'A14', 'A15', 'R17', 'R18', 'R19'],
        'proved_part': 'Verus, all inputs: both algorithms return >= 1 line, the lines\' views concatenate to fragments@, each line is the subrange between consecutive breaks, '
                       'lines are non-empty for non-empty input, exactly one empty line for empty input (optimal-fit: when it returns Ok). The back-pointer table optimal-fit walks has the shape it needs for every cost function: '
                       'smawk::online_column_minima and smawk_inner are verified in U24 on the crate\'s own source (no panic, termination, shape), so the dependency contract that used to be assumed (A6) is a proved one. U17 additionally proves that WrapAlgorithm::wrap (the dispatch used by wrap) hands that partition on, and that the Word accessors are pure functions of the fields.',
        'bounded_part': 'BEC cross-check by execution with real IEEE floats (negative, fractional, huge) and empty width lists (both also covered by the proof: the contracts quantify over every width list), pointer identity of the returned slices.',
        'explanation': 'Proof: the statement is the postcondition of wrap_first_fit and wrap_optimal_fit, discharged by Verus on the extracted functions; BEC re-checks it by execution.',
    },
    'C07': {
        'units': ['U1', 'U17', 'U11'], 'level': 'proof', 'kani': [K2], 'trusted': ['A1', 'A5', 'A9', 'A12', 'A17'],
        'proved_part': 'Verus, all inputs: with acc = left fold of width+whitespace from 0.0 and overflows(a,i,lw) = acc + w_i + p_i > lw evaluated in f64, no non-first fragment of a '
                       'line overflowed when it was added, and the first fragment of every following line did; line k uses the k-th width, the last repeats (U1). The dispatch WrapAlgorithm::wrap '
                       'hands the words and every listed width on unchanged and exports the same greedy rule for FirstFit (U17). The text-level reading ("in wrapped text every line holds as '
                       'many fragments as fit") is the composition of that with U11\'s functional postcondition: the lines of a paragraph are exactly the runs the dispatch returns for '
                       'para_words(paragraph) — the words found, split and (if asked) force-broken — at the widths of the indents actually rendered (two proved contracts, linked by the '
                       'restated callee contract A9/A17; the composition itself is not a single Verus obligation).',
        'bounded_part': 'BEC: the same on the real function with real floats; the text-level corollary (wrap == greedy rule over the words cut at split points) end to end on the real crate. '
                        'Thorough tier: Kani K2, bit-precise IEEE-754, 3 fragments with quarter-integer widths (bounded; about 10 min, 13 GB).',
        'explanation': 'Proof: greedy-maximality is the postcondition of wrap_first_fit (exists breaks. lines_match && greedy), discharged by Verus; the text-level second sentence is the composition '
                       'of that postcondition with U17\'s and U11\'s (case (a) of DESIGN.md §2.7); BEC re-checks both by execution.',
    },
    'C08': {
        'units': ['U11', 'U22'], 'level': 'proof', 'trusted': ['A3', 'A4', 'A9', 'A12', 'A15', 'A17', 'R15'],
        'proved_part': 'Verus, all inputs. First sentence: output line n of wrap starts with initial_indent if n == 0 else subsequent_indent — through the fast path, the slow path and '
                       'lines from empty paragraphs (postcondition `indented` of wrap; no assumption beyond the std wrappers). Second sentence: wrap is proved to compute the paragraph-wise '
                       'function wrap_fn of the pieces str::split yields (postcondition of wrap over those of wrap_single_line and wrap_single_line_slow_path: the appended lines are '
                       'para_fn(paragraph, options, does it start the output)); theorems over that function: every line is indent_n ++ wrap_rest[n] (wrap_fn_is_indent_plus_rest), and '
                       'wrap_rest is THE SAME for two option sets that differ only in the characters of their indents while agreeing on the indents\' display widths and emptiness '
                       '(c08_rest_depends_on_indent_widths_only, c08_wrap_rest_depends_on_indent_widths_only) — relative to A17 (each word stage is a function of its arguments). '
                       'A probe shows the emptiness clause is needed (dropping it makes the theorem fail).',
        'bounded_part': 'BEC: both sentences again by execution on the real crate (two calls with indents of equal width and emptiness but different characters).',
        'explanation': 'Proof: the first sentence is a postcondition of wrap; the second is a theorem over wrap\'s functional postcondition (lines == wrap_fn(pieces, options)), '
                       'discharged by Verus; BEC re-checks both by execution.',
    },
    'C09': {
        'units': ['U11', 'U12', 'U22'], 'level': 'proof', 'trusted': ['A3', 'A4', 'A9', 'A12', 'A15', 'A17', 'R15'],
        'proved_part': 'Verus, all inputs. wrap is proved to compute wrap_fn(split(text, E), options): paragraph k contributes para_fn(paragraph, options, is it first), appended to what '
                       'is there (U11: postconditions of wrap_single_line_slow_path, wrap_single_line — shortcut and slow path — and wrap). Theorems over that function, for all texts a, b: '
                       'wrap(a ++ E ++ b) begins with exactly the lines of wrap(a); the remaining lines are rest_fn(pieces of b, options), a function of b and the options alone, hence '
                       'independent of a; with empty indents they equal wrap(b); the output never has fewer lines than the input has paragraphs (c09_paragraphs_independent). '
                       'Every slice lies inside one paragraph and consecutive slices are separated by at most one line ending, so text is never joined across a break (whole-text '
                       'contract of wrap, C01). fill == wrap\'s lines joined by the configured line ending for every text, shortcut included (U12). LF <-> CRLF: for newline-free '
                       'paragraphs ps, wrap(join(ps, "\\n"), LF options) and wrap(join(ps, "\\r\\n"), CRLF options) are the same lines (c09_line_ending_equivariance), so fill\'s '
                       'two results differ only by the substitution. The by-reference conversion of Options copies every option unchanged and each setter changes exactly its field (U22). '
                       'Relative to A17 (each word stage is a function of its arguments; str::split as the left-to-right scan for its separator).',
        'bounded_part': 'BEC: every sentence again by execution on the real crate: wrap(a+E+b) begins with wrap(a), the rest is independent of a and equals wrap(b) for empty indents; '
                        'LF<->CRLF equivariance; fill == join, fast path included; and the std facts about str::split the theorems rest on (A4.std_models).',
        'explanation': 'Proof: every sentence of the statement is a discharged Verus obligation — postconditions of wrap / fill, and theorems over wrap\'s functional postcondition '
                       '(lines == wrap_fn(split(text, E), options)) — relative to A17; BEC re-checks all of it by execution.',
    },
    'C10': {
        'units': ['U3'], 'level': 'proof', 'kani': [K1, K1MIN], 'trusted': ['A2', 'A3', 'A8', 'A12', 'A13'],
        'proved_part': 'Verus, all inputs: skip_ansi_escape_sequence consumes exactly skip_len (CSI through the first byte in @..~, OSC through BEL or ESC \\, otherwise one char); '
                       'display_width(t) == dw(t@) <= t.len(); lemmas: for every text made of plain chars and well-formed CSI/OSC chunks dw == sum of widths of the stripped text; '
                       'additive over ESC-free prefixes, and over any two well-formed texts (dw_concat_wf); inserting a well-formed sequence at any character boundary of a well-formed text '
                       'changes neither the stripped text nor the width (dw_unchanged_by_inserted_sequence). Kani (complete, every char, both feature sets): ch_width(c) <= len_utf8(c); '
                       'ch_width(c) is the unicode-width table value (0 where the table has none) with the feature, and 1 below U+1100 / 2 from there on without it (k1_width_rule).',
        'bounded_part': 'BEC: every Unicode scalar value against the width tables once more (exhaustive, both feature sets); strings in scope against an independent implementation; insertion invariance by execution.',
        'explanation': 'Proof: display_width equals the spec function written from the statement, for all texts, with additivity and insertion invariance as lemmas over it (Verus); the per-character '
                       'widths and the byte-length bound for every char (loop-free Kani; the exhaustive scalar enumeration of BEC repeats them).',
    },
    'C11': {
        'units': ['U6', 'U13', 'U3', 'U20'], 'level': 'proof', 'trusted': ['A2', 'A3', 'A4', 'A9', 'A12', 'A13', 'R16'],
        'proved_part': 'Verus, all lines: Word::from — word ++ whitespace is the input, whitespace is spaces only, the word does not end in a space, width == display width, no penalty (U6). '
                       'ASCII separator (U13): every word is Word::from(line[s0..s1]) where s1 is the first position after s0 at which a space is followed by a non-space '
                       '(or the end of the line) — the boundaries are exactly those positions — and the collected words tile the line. '
                       'Unicode separator (U20, its three closures via R16): the words tile the line; there is exactly one boundary per kept opportunity, in order, where the kept '
                       'opportunities are those unicode_linebreak::linebreaks reports for the stripped line (strip proved in U3) minus the one at the end and those directly after '
                       '\'-\' or a soft hyphen; each boundary is the byte offset of a position of the original line that is not inside an escape sequence and whose stripped '
                       'prefix has exactly the opportunity\'s length.',
        'bounded_part': 'BEC: the real unicode-linebreak tables behind the assumed shape A13 (A13.linebreaks.shape), and every clause of both halves again by execution on the real '
                        'WordSeparator::find_words (the dispatcher itself is under contract in U13; only the call through a Custom function pointer is outside Verus).',
        'explanation': 'Proof: every clause of the statement is a discharged Verus obligation on the extracted functions, relative to A13 (the crate\'s linebreaks() is taken as '
                       '"the UAX #14 opportunities", with only its shape assumed) and the std iterator behaviour of from_fn/filter/find/collect (A4, R16).',
    },
    'C12': {
        'units': ['U6', 'U14', 'U15', 'U16'], 'level': 'proof', 'trusted': ['A3', 'A4', 'A9', 'A12', 'R15', 'R16'],
        'proved_part': 'Verus: break_words (at I = Vec) is lossless and the identity when no word is wider than the limit. split_words (U14, its closure after closure '
                       'conversion R16), for every word and every list of split points that is strictly increasing and made of char boundaries inside the word: the pieces are '
                       'word[p_(k-1)..p_k], they concatenate to the word, a piece followed by another gets "-" exactly when the text before the cut does not end in \'-\', the last '
                       'piece carries the original whitespace and penalty, every cached width is the display width. Word::break_apart (U15, closure conversion), for every '
                       'word and limit: pieces are consecutive non-empty runs between fresh positions (never inside an escape sequence), cached width == display width, '
                       '<= limit unless the whole width comes from one character, maximal (the next piece starts with visible text that would not have fitted), inner pieces '
                       'without whitespace/penalty, the last one with the word\'s.'
                       ' WordSplitter::split_points (U16): the hyphen splitter returns exactly the positions directly after each \'-\' with an alphanumeric character on both '
                       'sides, increasing, char boundaries strictly inside the word (the shape U14 assumes); NoHyphenation returns none.',
        'bounded_part': 'BEC: every clause again by execution on the real functions (incl. a custom hyphen-inserting splitter).',
        'explanation': 'Proof: every clause of the statement is a discharged Verus obligation on the extracted functions — split points of the built-in splitters (U16), '
                       'splitting (U14) and force-breaking (U15) through closure conversion R16, each with a collecting wrapper that lifts the per-item contract to the whole '
                       'stream, and the break_words dispatch (U6) — relative to the std contracts of char_indices / match_indices / slicing (A4); units are linked by restated '
                       'contracts audited in DESIGN.md §2.8 (A9); custom splitters are opaque (A15).',
    },
    'C13': {
        'units': ['U3', 'U15', 'U20', 'U22'], 'level': 'other', 'trusted': ['A2', 'A4', 'A8', 'A9', 'A12', 'A13', 'R16'],
        'proved_part': 'Verus lemma: well-formed sequences contribute nothing to display_width, so coloured and stripped words have equal widths. Force-breaking (U15, '
                       'Word::break_apart after closure conversion) cuts only at fresh positions of the word — never inside an escape sequence, none is dropped. The Unicode word finder (U20) '
                       'places every boundary at a position of the original line that is not inside an escape sequence (it works on the stripped text and maps back).',
        'bounded_part': 'BEC: strip(wrap(coloured)) == wrap(strip(coloured)); no sequence cut or dropped.',
        'explanation': 'Mixed: width-neutrality of sequences is proved; the end-to-end statement is relational and bounded.',
    },
    'C14': {
        'units': ['U1'], 'level': 'exploration', 'trusted': ['A1', 'A5', 'A12', 'A13'],
        'proved_part': 'Verus (U1), as a guard on the one single-call fact idempotence under first-fit rests on — not a proof of the property: wrap_first_fit ends a line exactly where the next fragment, '
                       'with the width of its penalty, no longer fits, so every line of the first result that holds more than one fragment fits the width, hyphen included, and is kept whole by the second call.',
        'bounded_part': 'BEC: the property itself.',
        'explanation': 'Decided by the bounded contract: idempotence is relational over two calls of fill, and the second call runs on a different text; no single-call contract expresses it without a full functional '
                       'specification of what the four word stages and the line breaker compute (over uninterpreted floats) — wrap\'s functional postcondition (U11) says how they are composed, not what they return. '
                       'The deductive technique does not apply; the property is claimed at level exploration through its bounded executable contract (the permitted bounded stand-in), never counted as proved. '
                       'Known finding KF6 lies in it.',
    },
    'C15': {
        'units': ['U4', 'U18', 'U22'], 'level': 'other', 'trusted': ['A3', 'A4', 'A12'],
        'proved_part': 'Verus: NonEmptyLines::next (U4) returns the next non-empty line without its \\n / \\r\\n, the right LineEnding, advances past it; None iff only empty '
                       'lines remain; every slice on a char boundary; terminates. unfill (U18), for every text — the structural half of the statement: the indents consist '
                       'only of prefix characters; the initial indent is a prefix of the first line, the subsequent indent of every later line; the returned text contains no '
                       'line break other than one final line ending; the reported line ending is CRLF exactly when some ending was seen and all seen were CRLF; the returned width is the display width of the widest line (max over str::lines); and every '
                       'slice taken in the second loop is in range and on a char boundary (NonEmptyLines yields exactly the non-empty elements of text.lines(): lemma '
                       'nel_is_filtered_lines over the byte-level definitions of both).',
        'bounded_part': 'BEC: the round trip with fill (relational over two calls: unfill(fill(t)) recovers text, indents, width, line ending) and the structural half again by execution.',
        'explanation': 'Mixed: the structural half and panic-freedom of unfill are proved for all inputs (std iterators through assumed std contracts; the link between '
                       'NonEmptyLines and str::lines is a proved lemma); the round-trip half is relational and checked by bounded exhaustive enumeration (known finding KF2 lies in it).',
    },
    'C16': {
        'units': ['U21', 'U18', 'U22'], 'level': 'other', 'trusted': ['A3', 'A4', 'A9', 'A12', 'R15'],
        'proved_part': 'Verus, all inputs (U21): refill(x, o2) == fill(unfill(x).text without its final line ending, o2 with the two indents unfill(x) detected) '
                       '++ (o2\'s line ending if one was removed) — the composition in C16\'s equation, with unfill and fill abstract. U18: unfill\'s structural contract '
                       '(indents are prefixes made of prefix characters, no inner line break, line-ending rule).',
        'bounded_part': 'BEC: the equation refill(fill(t, o1), o2) == fill(t, o2 with o1\'s indents) itself, i.e. that unfill inverts fill on C15\'s paragraphs (relational over '
                        'two calls), trailing line ending conversion, independence of the first width.',
        'explanation': 'Mixed: how refill composes unfill and fill is proved for all inputs; that unfill(fill(t)) gives back t and the indents is relational and bounded. Known finding KF3 lies in the bounded part.',
    },
    'C17': {
        'units': ['U10', 'U1', 'U13'], 'level': 'other', 'trusted': ['A1', 'A3', 'A4', 'A5', 'A9', 'A12', 'R16'],
        'proved_part': 'Verus, all inputs: fill_inplace keeps the length and every changed byte was \' \' and became \'\\n\'; the edited bytes stay valid UTF-8, so the final '
                       'from_utf8().unwrap() cannot panic; and the changed positions are EXACTLY the last byte of every non-final run that wrap_first_fit (width w) makes of the '
                       'ASCII-separator words of each \'\\n\'-separated line — none missing, none extra (U10; the two callees enter as pure functions of their input, with the '
                       'partition contract of U1 and the ASCII tiling of U13).',
        'bounded_part': 'BEC: agreement with wrap at the documented options (that wrap, through its shortcut and its slow path, produces the same runs with trailing spaces '
                        'trimmed is a statement over two calls; wrap\'s shortcut needs first-fit arithmetic on uninterpreted floats), and the whole statement again by execution.',
        'explanation': 'Mixed: fill_inplace has a complete functional contract relative to its two callees; agreement with wrap is relational and bounded.',
    },
    'C18': {
        'units': ['U9', 'U8'], 'level': 'proof', 'kani': [K5], 'trusted': ['A3', 'A4', 'A9', 'A12'],
        'proved_part': 'Verus, all inputs (U9): there is a margin length mlen such that, when some line has text, a string m of that length is the LONGEST string of '
                       'whitespace characters that is a prefix of every line containing a non-whitespace character (is_margin: common, and no longer common one exists); the '
                       'result is every line with text without its first mlen characters, every whitespace-only line empty, one output line per input line (each '
                       'followed by a newline), the final newline removed exactly when the input does not end in one. `str::lines` and `char::is_whitespace` are abstract (A4). '
                       'The two "therefore" corollaries are theorems over that postcondition (U9, with two std facts: \'\\r\' is whitespace (cr_is_ws), and str::lines is lines_c — the \'\\n\'-separated pieces, a terminated piece '
                       'without one \'\\r\' before its \'\\n\', the unterminated last piece as it is and dropped when empty —, checked on the real str::lines by the bounded contract A4.std_models): c18_dedent_idempotent_cr — for every text '
                       'outside known finding KF4\'s input class (kf4_free: no line that is terminated by a line break and has text ends in a carriage return; carriage returns allowed otherwise), whatever the contract '
                       'allows as dedent(s) and as dedent of that are equal (after the longest common margin is removed no common margin is left: second_margin_empty); c18_dedent_of_indent — with indent(s, p) in the closed form U8 proves of it (indent_spec), for every whitespace prefix p '
                       'without a line break (\'\\n\'; carriage returns and non-ASCII whitespace allowed — second std fact: \'\\r\' is whitespace) and every s without CR, dedent(indent(s, p)) == dedent(s) (the margin of the indented lines is p followed by the margin of the lines: margin_of_mapped; '
                       'whitespace-only lines stay whitespace-only; the final newline is kept). All are probed for vacuity; without kf4_free the idempotence proof fails.',
        'bounded_part': 'BEC: the same against an independent implementation on every string in scope; both corollaries again by execution on the real functions (prefixes: blanks, tab, carriage return, U+3000, and two with a line break); on KF4\'s input class '
                        '(the negation of kf4_free, computed on the input) idempotence fails, with a prefix containing \'\\n\' (KF8) the second corollary fails: both are reported as pinned known findings — a failure outside them would be a violation.',
        'explanation': 'Proof: the first two sentences of the statement (the margin rule, the shape of the output) are the postcondition of dedent, discharged by Verus on '
                       'the extracted function (three loops, std iterators through assumed std contracts). The two "therefore" corollaries are proved as theorems over that postcondition (and U8\'s for indent): '
                       'the second for every text without carriage returns and every whitespace prefix without a line break — with a \'\\n\' in the prefix it is false of the code, known finding KF8 —, '
                       'idempotence for every text outside the input class of known finding KF4, on which it demonstrably fails ("a\\r\\r\\n": a line\'s own text ends in a carriage return). Proof in the sense of DESIGN §2.7 (a) cross-unit composition U8 -> U9 and (b) proved on the exact complements of the two open known findings.',
    },
    'C19': {
        'units': ['U8'], 'level': 'proof', 'trusted': ['A3', 'A4', 'A12'],
        'proved_part': 'Verus, all inputs: indent(s, p)@ == indent_spec(s@, p@): the split_terminator pieces mapped by l -> (all_ws(l) ? trim_end(p) : p) ++ l, joined by \\n, '
                       'final newline re-appended. The remaining clauses are lemmas over indent_spec (split modelled char by char): indent(s, "") == s (indent_empty_prefix); for a prefix without '
                       'a newline the lines of the result are the indented lines of s, one for one — same number of lines, newlines in the same places, a final newline kept and none added '
                       '(indent_keeps_lines, over join_split / split_join_pieces).',
        'bounded_part': 'BEC cross-check against an independent implementation, every clause again by execution.',
        'explanation': 'Proof: the postcondition equates indent with the spec function written from the statement (whitespace predicate and split_terminator are the assumed std contracts); '
                       'the line-count and empty-prefix clauses are proved as lemmas over that function.',
    },
    'C20': {
        'units': ['U5', 'U22'], 'level': 'proof', 'kani': [K1, K1MIN], 'trusted': ['A2', 'A3', 'A4', 'A11', 'A12', 'R15'],
        'proved_part': 'Verus, all inputs with columns >= 1 (A11): rows = ceil(|ls|/columns); row r = left ++ PROD_c (cell(r + c*rows) ++ sep_c) ++ right with '
                       'cell(i) = ls[i] ++ spaces(cw - dw(ls[i])) (saturating) or spaces(cw), sep_c the middle gap or the remainder padding after the last column, '
                       'cw = max(inner/columns, 1), ls = whatever wrap returns at width cw; no panic. Second sentence: theorem c20_equal_row_widths over that layout — when no line is wider than the column '
                       'and lines and gaps are well-formed (every escape sequence terminated: the texts for which C10 makes display widths additive, lemma dw_concat_wf), every row is exactly '
                       'dw(left) + dw(right) + (columns-1)*dw(middle) + columns*cw + remainder wide; a wider line makes its row longer by construction of the cell (saturating padding) and the call '
                       'cannot fail (F5). A space being one column wide is Kani harness K1\'s k1_space_is_one_column (both feature sets).',
        'bounded_part': 'BEC: the same on the real function plus "equal row widths when nothing protrudes" by execution, including texts with an unterminated escape sequence — where the letter of '
                        'the second sentence fails (known finding KF7: the open sequence swallows the padding that follows it).',
        'explanation': 'Proof: the complete layout is the postcondition of wrap_columns, relative to wrap\'s result (wrap\'s own properties are C01-C09); the equal-width sentence is a theorem over '
                       'that layout for well-formed texts; for texts with an unterminated escape sequence it is false of the pinned code and recorded as KF7.',
    },
}

# what each unit (and Kani harness) rests on; a property's `trusted` list is the union over its units and harnesses, plus whatever
# its own entry names in addition (e.g. A13 for the BEC oracles)
UNIT_TRUSTED = {
    'U1': ['A1', 'A5', 'A12'],
    'U2': ['A1', 'A5', 'A6', 'A7', 'A9', 'A11', 'A12'],
    'U3': ['A2', 'A3', 'A4', 'A8', 'A12'],
    'U4': ['A3', 'A4', 'A12'],
    'U5': ['A2', 'A3', 'A4', 'A9', 'A11', 'A12', 'R15'],
    'U6': ['A3', 'A4', 'A9', 'A12', 'R15'],
    'U8': ['A3', 'A4', 'A12'],
    'U9': ['A3', 'A4', 'A12'],
    'U10': ['A1', 'A3', 'A4', 'A5', 'A9', 'A10', 'A12', 'A17'],
    'U11': ['A3', 'A4', 'A9', 'A10', 'A12', 'A15', 'A17', 'R15'],
    'U12': ['A3', 'A4', 'A9', 'A12', 'R15'],
    'U13': ['A3', 'A4', 'A9', 'A12', 'R16'],
    'U14': ['A3', 'A4', 'A9', 'A12', 'A15', 'R15', 'R16'],
    'U15': ['A3', 'A4', 'A9', 'A12', 'R16'],
    'U16': ['A3', 'A4', 'A12', 'A15'],
    'U17': ['A1', 'A5', 'A9', 'A12', 'A14', 'A15', 'A16'],
    'U18': ['A3', 'A4', 'A9', 'A12'],
    'U20': ['A3', 'A4', 'A9', 'A12', 'A13', 'R16'],
    'U21': ['A3', 'A4', 'A9', 'A12', 'R15'],
    'U22': ['A3', 'A4', 'A12', 'R15'],
    'U23': ['A3', 'A7', 'A12', 'R17'],
    'U24': ['A3', 'A4', 'A6', 'A12', 'R18', 'R19'],
    'K1': ['A2'], 'K2': ['A1'], 'K3': ['A16'], 'K5': ['A4'],
}
_U22 = (' The options reach the library through `impl From<&Options>` / `From<usize>` and the setters: the by-reference conversion copies every option '
        'unchanged (so f(text, &options) is f(text, options)), the width conversion is Options::new(width), and each setter changes exactly its field (U22).')
for _pid in ('C01', 'C05', 'C13', 'C15', 'C16', 'C20'):
    PROPS[_pid]['proved_part'] += _U22
_ORDER = ['A%d' % i for i in range(1, 18)] + ['R15', 'R16', 'R17', 'R18', 'R19']
for _pid, _cfg in PROPS.items():
    _t = set(_cfg.get('trusted', []))
    for _u in _cfg.get('units', []):
        _t |= set(UNIT_TRUSTED[_u])
    for _k in _cfg.get('kani', []):
        _t |= set(UNIT_TRUSTED[_k['name'].split('.')[0]])
    _cfg['trusted'] = sorted(_t, key=_ORDER.index)
