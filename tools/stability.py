#!/usr/bin/env python3
"""Proof-stability sweep: every generated unit is re-verified under several Z3 random seeds; a unit that fails (rlimit) under
some seed is fragile and should be restructured (opaque predicates + step lemmas). usage: stability.py [n_seeds] [units...]"""
import os, subprocess, sys, tempfile, json
V = os.path.dirname(os.path.dirname(os.path.abspath(__file__)))
sys.path.insert(0, os.path.join(V, 'tools'))
import vx
n = int(sys.argv[1]) if len(sys.argv) > 1 else 8
names = sys.argv[2:]
units = [u for u in vx.all_units() if not names or u.id in names]
d = tempfile.mkdtemp(prefix='vx_stab_')
bad = 0
for u in units:
    src, _ = vx.generate(u)
    f = os.path.join(d, u.id + '.rs'); open(f, 'w').write(src)
    worst = 0
    for seed in range(1, n + 1):
        r = subprocess.run(['verus', f, '--triggers-mode', 'silent', '--output-json', '--time', '--smt-option', f'smt.random_seed={seed}', '--smt-option', f'sat.random_seed={seed}'] + (['--rlimit', str(u.rlimit)] if u.rlimit else []),
                           capture_output=True, text=True, cwd=d)
        try:
            j = json.loads(r.stdout); ok = j['verification-results']['errors'] == 0
            worst = max([worst] + [x['rlimit'] for m in j['times-ms']['smt']['smt-run-module-times'] for x in m['function-breakdown']])
        except Exception:
            ok = False
        if not ok:
            bad += 1; print(f'{u.id}: FAILS under seed {seed}')
    print(f'{u.id}: {n} seeds, max rlimit count {worst}')
print('fragile runs:', bad)
sys.exit(1 if bad else 0)
