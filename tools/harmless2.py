#!/usr/bin/env python3
"""False-alarm campaign with independently written behaviour-preserving refactors (harmless/<id>/patch.diff + NOTES.md):
apply each to /repo, run EVERY property's quick check, undo; a refactor that keeps behaviour must never produce exit 1.
Exit 2 (undecided: a rewrite rule or anchor no longer matches the refactored text) is not an alarm, but is recorded.
   usage: harmless2.py [ids...]      -> harmless/RESULTS.json, harmless/RESULTS.md"""
import json, os, subprocess, sys, time
from concurrent.futures import ThreadPoolExecutor
V = os.path.dirname(os.path.dirname(os.path.abspath(__file__)))
H = os.path.join(V, 'harmless')
ids = sys.argv[1:] or sorted(d for d in os.listdir(H) if os.path.isdir(os.path.join(H, d)))
resf = os.path.join(H, 'RESULTS.json')
results = json.load(open(resf)) if os.path.exists(resf) else {}
PROPS = [f'C{i:02d}' for i in range(1, 21)]
assert subprocess.run(['git', '-C', '/repo', 'status', '--porcelain', '--untracked-files=no'], capture_output=True, text=True).stdout.strip() == '', '/repo not clean'
saved = {p: open(os.path.join(V, 'evidence', p + '.json'), 'rb').read() for p in PROPS if os.path.exists(os.path.join(V, 'evidence', p + '.json'))}


def one(p):
    t0 = time.time()
    c = subprocess.run([os.path.join(V, 'check'), p, '--tier', 'quick'], capture_output=True, text=True, cwd=V)
    lines = [l for l in c.stdout.split('\n') if l.startswith(('VIOLATION', 'UNDECIDED', '  failed'))]
    return p, {'exit': c.returncode, 'lines': [l[:300] for l in lines[:6]], 's': round(time.time() - t0, 1)}


for h in ids:
    d = os.path.join(H, h)
    r = subprocess.run(['git', '-C', '/repo', 'apply', os.path.join(d, 'patch.diff')], capture_output=True, text=True)
    if r.returncode != 0:
        print(h, 'PATCH DOES NOT APPLY', r.stderr[:300]); continue
    try:
        with ThreadPoolExecutor(max_workers=3) as ex:
            out = dict(ex.map(one, PROPS))
    finally:
        subprocess.run(['git', '-C', '/repo', 'checkout', '--', '.'], check=True)
        for p, b in saved.items():
            open(os.path.join(V, 'evidence', p + '.json'), 'wb').write(b)   # evidence describes the unchanged tree only
    results[h] = {'checks': out, 'alarms': [p for p in PROPS if out[p]['exit'] == 1], 'undecided': [p for p in PROPS if out[p]['exit'] == 2],
                  'held': [p for p in PROPS if out[p]['exit'] == 0]}
    print(h, 'alarms:', results[h]['alarms'], 'undecided:', results[h]['undecided'], flush=True)
    json.dump(results, open(resf, 'w'), indent=1, ensure_ascii=False)
md = ['# Behaviour-preserving refactors written by independent sub-agents, run against every quick check', '',
      '| refactor | files | exit 0 (held) | exit 2 (undecided) | exit 1 (false alarm) |', '|---|---|---|---|---|']
import re
for h in sorted(results):
    files = ', '.join(sorted(set(re.findall(r'^\+\+\+ b/(\S+)', open(os.path.join(H, h, 'patch.diff')).read(), re.M))))
    r = results[h]
    md.append(f"| {h} | {files} | {len(r['held'])} | {' '.join(r['undecided']) or '-'} | {' '.join(r['alarms']) or '-'} |")
open(os.path.join(H, 'RESULTS.md'), 'w').write('\n'.join(md) + '\n')
print('false alarms:', sum(len(r['alarms']) for r in results.values()))
