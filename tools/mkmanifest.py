#!/usr/bin/env python3
"""regenerate /verif/MANIFEST.json from tools/props.py"""
import json, os, sys
sys.path.insert(0, os.path.dirname(os.path.abspath(__file__)))
from props import PROPS, TRUSTED
V = os.path.dirname(os.path.dirname(os.path.abspath(__file__)))
TECH = {
    'proof': 'Verus contracts (requires/ensures/invariants/lemmas) on functions extracted mechanically from /repo each run; bounded exhaustive contract check as cross-check and counterexample finder',
    'other': 'Verus contracts on the extracted functions for the named part; bounded exhaustive contract checking (stated scope) of the real crate for the rest',
    'exploration': 'bounded exhaustive contract checking of the real crate (stated scope) — no deductive part',
}
checks = []
for pid, c in sorted(PROPS.items()):
    units = ', '.join(c.get('units', [])) or 'none'
    kani = ', '.join(k['name'] + ('' if k.get('quick') else ' (thorough tier only, bounded)') for k in c.get('kani', []))
    text = c['explanation']
    if c.get('proved_part'):
        text += ' PROVED: ' + c['proved_part']
    if c.get('bounded_part'):
        text += ' BOUNDED: ' + c['bounded_part']
    checks.append({
        'property_id': pid,
        'quick_cmd': f'./check {pid} --tier quick',
        'thorough_cmd': f'./check {pid} --tier thorough',
        'evidence_file': f'/verif/evidence/{pid}.json',
        'replay_cmd_template': f'./check {pid} --replay {{path}}',
        'engine': 'contracts',
        'level_claimed': {'category': c['level'], 'text': text, 'design_ref': 'DESIGN.md §4 ' + pid},
        'level_note': 'Verus units: ' + units + ('; Kani: ' + kani if kani else '') + '. Trusted: ' + ' | '.join(TRUSTED[k] for k in c.get('trusted', [])) if c.get('trusted') else 'bounded only; trusted: rustc, the BEC oracles (A13 where Unicode tables are used)',
        'technique': TECH[c['level']] + (f' [units {units}]' if c.get('units') else '') + (f'; Kani: {kani}' if kani else ''),
    })
m = {
    'version': 1,
    'setup_cmd': './setup.sh',
    'hooks': {
        'guard': 'fuzzing',
        'enable': 'RUSTFLAGS="--cfg fuzzing" (upstream\'s own cfg(fuzzing) module exposes wrap_single_line, wrap_single_line_slow_path and fill_slow_path to the BEC crate); Kani harnesses are appended to a scratch copy under cfg(kani); no hook commit in /repo',
        'baseline_off_cmd': 'cd /repo && cargo test --workspace --no-fail-fast --offline',
        'source_commits': [],
        'add_only': True,
    },
    'engines': [
        {'name': 'contracts', 'path': '/verif/check', 'serves_properties': sorted(PROPS), 'kind_free_text':
         'contract-based deductive verification: tools/vx.py extracts the functions from /repo, applies logged rewrite rules, merges the contracts of /verif/contracts/*.vrs and runs Verus; '
         'tools/kx.py runs the Kani harnesses (loop-free, complete: K1, K3, K5; bounded: K2, thorough tier of C07 only) on a scratch copy; /verif/bec is the bounded exhaustive contract checker (executable contracts on the real crate) used for the parts no verifier reaches and as counterexample finder / replay harness'},
    ],
    'checks': checks,
    'not_applicable': [],
    'notes': 'exit codes of ./check: 0 held, 1 VIOLATION, 2 undecided (tool limit / lost anchor / build failure; never an alarm). The level "exploration" entry (C14) is bounded-only: '
             'a reader who counts only deductive results should read it as not decided by the contract technique (reasons in DESIGN.md §6).',
}
json.dump(m, open(os.path.join(V, 'MANIFEST.json'), 'w'), indent=1, ensure_ascii=False)
print('MANIFEST.json written,', len(checks), 'checks')
