#!/bin/sh
# usage: seedverify.sh <seed dir under /verif/seeded> <scratch worktree>
# confirms: patch applies; full suite passes with it (both feature sets); demo fails with it and passes without it
S=/verif/seeded/$1; W=$2
cd $W || exit 9
git checkout -q -- . ; rm -f tests/seed_demo.rs
git apply $S/patch.diff || { echo "$1: PATCH DOES NOT APPLY"; exit 1; }
suite=$(cargo test --offline 2>&1 | grep -E "^test result" | grep -vc "ok\.")
suite_min=$(cargo test --offline --no-default-features 2>&1 | grep -E "^test result" | grep -vc "ok\.")
cp $S/demo.rs tests/seed_demo.rs
cargo test --offline --test seed_demo >/tmp/sv_$1_with.log 2>&1; with=$?
git checkout -q -- src
cargo test --offline --test seed_demo >/tmp/sv_$1_without.log 2>&1; without=$?
rm -f tests/seed_demo.rs
echo "$1: suite_failing_groups=$suite suite_min_failing_groups=$suite_min demo_with_patch_exit=$with demo_without_patch_exit=$without"
