#!/bin/sh
# usage: seedimport.sh <wave prefix, e.g. w4> <Cxx> <scratch worktree>   -> /verif/seeded/<prefix>_<Cxx>_A (+ seedverify)
w=$1; p=$2; W=$3; id=${w}_${p}_A; d=/verif/seeded/$id
[ -d $d ] && { echo "$id exists"; exit 0; }
mkdir -p $d
git -C $W diff -- src > $d/patch.diff
cp $W/tests/seed_demo.rs $d/demo.rs; cp $W/NOTES.md $d/NOTES.md 2>/dev/null
python3 - <<PY
import json
json.dump({'id': '$id', 'breaks': ['$p'], 'origin': 'independent sub-agent (wave ${w}: a change that needs something specific to manifest), given only the text of $p and a scratch worktree',
  'needs': 'see NOTES.md', 'confirmed': 'tools/seedverify.sh: patch applies; cargo test --offline and --no-default-features pass with it; demo.rs fails with it and passes without it',
  'ran': 'tools/seedtest.py (results in seeded/RESULTS.json)'}, open('$d/meta.json','w'), indent=1)
PY
/verif/tools/seedverify.sh $id $W 2>&1 | grep -v "^warning"
