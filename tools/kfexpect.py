#!/usr/bin/env python3
"""Record, for every open known finding that is identified by an input class, the SET of inputs on which it shows on the current
(unchanged) tree — per contract, feature flavour, tier and seed 1 — as (count, fingerprint) in known_findings.json (`expected_sets`).
./check then reports the same class on a different set of inputs as a violation. Run on the unchanged tree only, by hand; ./check
never writes that file.   usage: kfexpect.py [--tiers quick,thorough]"""
import json, os, subprocess, sys
V = os.path.dirname(os.path.dirname(os.path.abspath(__file__)))
tiers = (sys.argv[sys.argv.index('--tiers') + 1] if '--tiers' in sys.argv else 'quick,thorough').split(',')
assert subprocess.run(['git', '-C', '/repo', 'status', '--porcelain', '--untracked-files=no'], capture_output=True, text=True).stdout.strip() == '', '/repo not clean'
kf = json.load(open(os.path.join(V, 'known_findings.json')))
for f in kf['findings']:
    if f.get('status') == 'open' and f.get('class'):
        f['expected_sets'] = {k: v for k, v in f.get('expected_sets', {}).items() if k.split('|')[2] not in tiers}
props = sorted({f['property'] for f in kf['findings'] if f.get('status') == 'open' and f.get('class')})
for p in props:
    for tier in tiers:
        evf = os.path.join(V, 'evidence', p + '.json')
        saved = open(evf, 'rb').read() if os.path.exists(evf) else None
        tmp = os.path.join(V, 'known_findings.json.tmp')
        # run with the expectations of this tier removed, so that the run itself cannot trip over stale ones
        json.dump(kf, open(os.path.join(V, 'known_findings.json'), 'w'), indent=1, ensure_ascii=False)
        c = subprocess.run([os.path.join(V, 'check'), p, '--tier', tier, '--seed', '1'], capture_output=True, text=True, cwd=V)
        ev = json.load(open(evf))
        if saved is not None and tier != 'quick':
            open(evf, 'wb').write(saved)
        for r in ev['coverage']['bounded_contracts']:
            for cdesc in r['contracts']:
                for cs in cdesc.get('known_finding_classes', []):
                    for f in kf['findings']:
                        if f.get('status') == 'open' and f.get('property') == p and f.get('class') == cs['class']:
                            f.setdefault('expected_sets', {})[f"{cdesc['contract']}|{r['flavor']}|{tier}|1"] = {'count': cs['count'], 'fingerprint': cs['fingerprint']}
        print(p, tier, 'exit', c.returncode)
json.dump(kf, open(os.path.join(V, 'known_findings.json'), 'w'), indent=1, ensure_ascii=False)
print({f['id']: len(f.get('expected_sets', {})) for f in kf['findings'] if f.get('status') == 'open'})
