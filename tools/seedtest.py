#!/usr/bin/env python3
"""apply each seeded change to /repo, run the checks of the properties it breaks (or all), undo; record what caught it.
   usage: seedtest.py [--all-props] [--tier quick] [seed ids...]"""
import json, os, subprocess, sys, time
V = os.path.dirname(os.path.dirname(os.path.abspath(__file__)))
args = [a for a in sys.argv[1:] if not a.startswith('--')]
allprops = '--all-props' in sys.argv
tier = 'thorough' if '--thorough' in sys.argv else 'quick'
seeds = args or sorted(os.listdir(os.path.join(V, 'seeded')))
resf = os.path.join(V, 'seeded', 'RESULTS.json')
results = json.load(open(resf)) if os.path.exists(resf) else {}
PROPS = [f'C{i:02d}' for i in range(1, 21)]
assert subprocess.run(['git', '-C', '/repo', 'status', '--porcelain', '--untracked-files=no'], capture_output=True, text=True).stdout.strip() == '', '/repo not clean'
for s in seeds:
    d = os.path.join(V, 'seeded', s)
    if not os.path.isdir(d):
        continue
    meta = json.load(open(os.path.join(d, 'meta.json')))
    r = subprocess.run(['git', '-C', '/repo', 'apply', os.path.join(d, 'patch.diff')], capture_output=True, text=True)
    if r.returncode != 0:
        print(s, 'PATCH DOES NOT APPLY', r.stderr[:300]); continue
    try:
        out = {}
        for p in (PROPS if allprops else meta['breaks']):
            t0 = time.time()
            evf = os.path.join(V, 'evidence', p + '.json')
            saved = open(evf, 'rb').read() if os.path.exists(evf) else None   # evidence must describe runs on the UNCHANGED tree: keep it
            c = subprocess.run([os.path.join(V, 'check'), p, '--tier', tier], capture_output=True, text=True, cwd=V)
            if saved is not None:
                open(evf, 'wb').write(saved)
            lines = [l for l in c.stdout.split('\n') if l.startswith(('VIOLATION', 'UNDECIDED', '  failed', 'KNOWN'))]
            names = sorted({l.split('failed: ', 1)[1].split(':', 1)[0] for l in lines if l.startswith('  failed')})
            out[p] = {'exit': c.returncode, 'lines': lines[:6], 's': round(time.time() - t0, 1),
                      'verus_failed': [n for n in names if n[0] == 'U'], 'kani_failed': [n for n in names if n[0] == 'K'],
                      'bec_failed': [n for n in names if n[0] not in 'UK'],
                      'undecided': sorted({l.split(': ', 1)[1].split(':', 1)[0] for l in lines if l.startswith('UNDECIDED') and ': ' in l}),
                      'no_failing_input': any('no-failing-input-found' in l for l in lines)}
            print(f'{s} {p}: exit {c.returncode}', (lines[0][:200] if lines else ''))
        results[s] = {'breaks': meta['breaks'], 'tier': tier, 'checks': out,
                      'caught': all(out[p]['exit'] == 1 for p in meta['breaks'] if p in out),
                      'other_alarms': [p for p in out if p not in meta['breaks'] and out[p]['exit'] == 1]}
    finally:
        subprocess.run(['git', '-C', '/repo', 'checkout', '--', '.'], check=True)
json.dump(results, open(resf, 'w'), indent=1, ensure_ascii=False)
