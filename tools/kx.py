#!/usr/bin/env python3
"""kx — Kani driver: scratch copy of /repo (outside /repo and /verif), harness injection, result parsing."""
import os
import re
import shutil
import subprocess
import tempfile
import time

VERIF = os.path.dirname(os.path.dirname(os.path.abspath(__file__)))


def run_harness(k, repo='/repo', tier='quick'):
    """k: dict(name, file (under /verif/kani), inject (path in repo copy), harnesses [..], features ('default'|'min'), timeout)"""
    t0 = time.time()
    scratch = tempfile.mkdtemp(prefix='verif_kani_')
    res = {'harness': k['name'], 'features': k.get('features', 'default'), 'status': 'pass', 'reason': '', 'checks': 0, 'checks_ok': 0,
           'scope': k.get('scope', k.get('bounded', 'complete: loop-free harness over the full domain of `char`'))}
    try:
        dst = os.path.join(scratch, 'repo')
        shutil.copytree(repo, dst, ignore=shutil.ignore_patterns('target', '.git', 'fuzz', 'benchmarks', 'images'))
        src = open(os.path.join(VERIF, 'kani', k['file'])).read()
        tgt = os.path.join(dst, k['inject'])
        with open(tgt, 'a') as f:
            f.write('\n' + src)
        lib = os.path.join(dst, 'src', 'lib.rs')
        s = open(lib).read().replace('#![forbid(unsafe_code)]', '#![cfg_attr(not(kani), forbid(unsafe_code))]')
        s = s.replace('#![deny(missing_docs)]', '').replace('#![deny(missing_debug_implementations)]', '')
        open(lib, 'w').write(s)
        env = dict(os.environ, CARGO_NET_OFFLINE='true')
        env.pop('RUSTFLAGS', None)
        per = []
        for h in k['harnesses']:
            cmd = ['cargo', 'kani', '--harness', h['name']]
            if k.get('features') == 'min':
                cmd += ['--no-default-features']
            cmd += k.get('args', [])
            try:
                r = subprocess.run(cmd, cwd=dst, env=env, capture_output=True, text=True, timeout=k.get('timeout', 900))
                out = r.stdout + r.stderr
            except subprocess.TimeoutExpired:
                res['status'] = 'undecided'
                res['reason'] = f"{h['name']}: cargo kani timed out after {k.get('timeout', 900)} s"
                per.append({'harness': h['name'], 'result': 'timeout'})
                continue
            m = re.search(r'\*\* (\d+) of (\d+) failed', out)
            ok = 'VERIFICATION:- SUCCESSFUL' in out
            failed_v = 'VERIFICATION:- FAILED' in out
            tm = re.search(r'Verification Time: ([0-9.]+)s', out)
            n_failed, n_total = (int(m.group(1)), int(m.group(2))) if m else (0, 0)
            entry = {'harness': h['name'], 'cmd': ' '.join(cmd), 'checks': n_total, 'failed_checks': n_failed,
                     'verification_time_s': float(tm.group(1)) if tm else None,
                     'result': 'successful' if ok else ('failed' if failed_v else 'error')}
            per.append(entry)
            res['checks'] += n_total
            if ok:
                res['checks_ok'] += n_total
            elif failed_v:
                res['checks_ok'] += n_total - n_failed
                res['status'] = 'violation'
                fl = [l for l in out.split('\n') if 'Status: FAILURE' in l or 'Failed Checks' in l]
                res['reason'] = f"{h['name']}: Kani refuted the contract: " + ' | '.join(fl[:4])
                res['output_tail'] = out[-3000:]
            else:
                res['status'] = 'undecided'
                res['reason'] = f"{h['name']}: cargo kani did not produce a verdict: {out[-600:]}"
        res['runs'] = per
        res['wall_s'] = round(time.time() - t0, 2)
        return res
    finally:
        shutil.rmtree(scratch, ignore_errors=True)


if __name__ == '__main__':
    import json
    import sys
    sys.path.insert(0, os.path.dirname(os.path.abspath(__file__)))
    from props import KANI
    for name in sys.argv[1:]:
        print(json.dumps(run_harness(KANI[name]), indent=1))
